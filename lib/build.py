"""Content-addressed build of the Celma library objects and of harness binaries.

Everything is compiled from /repo's *current working tree*; nothing is taken from
/repo/_build.  Cache keys are hashes of file contents + flags, so an edited tree
is always rebuilt and an unchanged one is never rebuilt.
"""
import fcntl
import hashlib
import os
import re
import subprocess
import sys
import time
from concurrent.futures import ThreadPoolExecutor

VERIF = os.path.dirname(os.path.dirname(os.path.abspath(__file__)))
REPO = os.environ.get("VERIF_REPO", "/repo")
BUILD = os.path.join(VERIF, "build")
GUARD = "CELMA_VERIF"
JOBS = int(os.environ.get("VERIF_JOBS", "16"))

COMMON = ["-std=gnu++17", "-g1", "-O1", "-fno-omit-frame-pointer", "-D" + GUARD, "-w"]
CONFIGS = {
    # gcc + ASan + UBSan (vptr off: Tokenizer calls a member in a base initialiser, see DESIGN 2.2)
    "asan": dict(cxx="g++", flags=COMMON + ["-fsanitize=address,undefined", "-fno-sanitize=vptr",
                                            "-fno-sanitize-recover=undefined"]),
    # as asan but without the signed-overflow check (C13: negating the minimum is outside the property)
    "asan_nso": dict(cxx="g++", flags=COMMON + ["-fsanitize=address,undefined", "-fno-sanitize=vptr",
                                                "-fno-sanitize=signed-integer-overflow",
                                                "-fno-sanitize-recover=undefined"]),
    "tsan": dict(cxx="g++", flags=COMMON + ["-fsanitize=thread"]),
    "plain": dict(cxx="g++", flags=["-std=gnu++17", "-g1", "-O2", "-D" + GUARD, "-w"]),
    "fuzz": dict(cxx="clang++", flags=COMMON + ["-fsanitize=fuzzer-no-link,address,undefined",
                                                "-fno-sanitize=vptr", "-fno-sanitize-recover=undefined"]),
}
LINK_EXTRA = {
    "fuzz": ["-fsanitize=fuzzer,address,undefined", "-fno-sanitize=vptr"],
}


def _unlink(p):
    try:
        os.unlink(p)
    except OSError:
        pass


class BuildError(Exception):
    pass


def sha(*parts):
    h = hashlib.sha256()
    for p in parts:
        if isinstance(p, str):
            p = p.encode()
        h.update(p)
        h.update(b"\0")
    return h.hexdigest()[:24]


def file_hash(path):
    with open(path, "rb") as f:
        return hashlib.sha256(f.read()).hexdigest()


_hdr_cache = {}


def tree_hash(root, suffixes):
    key = (root, suffixes)
    if key in _hdr_cache:
        return _hdr_cache[key]
    h = hashlib.sha256()
    for d, dirs, files in sorted(os.walk(root)):
        dirs.sort()
        for f in sorted(files):
            if f.endswith(suffixes):
                p = os.path.join(d, f)
                h.update(p.encode())
                h.update(file_hash(p).encode())
    _hdr_cache[key] = h.hexdigest()
    return _hdr_cache[key]


def repo_headers_hash():
    return tree_hash(os.path.join(REPO, "src", "celma"), (".hpp", ".h"))


def library_sources():
    out = []
    root = os.path.join(REPO, "src", "library")
    for d, dirs, files in os.walk(root):
        dirs.sort()
        parts = d.split(os.sep)
        if "test" in parts or "test_output" in parts:
            continue
        for f in sorted(files):
            if f.endswith(".cpp") and f != "print_version_info.cpp":
                out.append(os.path.join(d, f))
    return sorted(out)


class Lock:
    def __init__(self, path):
        self.path = path

    def __enter__(self):
        os.makedirs(os.path.dirname(self.path), exist_ok=True)
        self.f = open(self.path, "w")
        fcntl.flock(self.f, fcntl.LOCK_EX)
        return self

    def __exit__(self, *a):
        fcntl.flock(self.f, fcntl.LOCK_UN)
        self.f.close()


def _run(cmd, what):
    p = subprocess.run(cmd, stdout=subprocess.PIPE, stderr=subprocess.STDOUT, text=True)
    if p.returncode != 0:
        raise BuildError("%s failed:\n%s\n%s" % (what, " ".join(cmd), p.stdout[-6000:]))


def compile_object(cfg, src, extra_key, extra_flags=()):
    c = CONFIGS[cfg]
    key = sha(cfg, " ".join(c["flags"]), " ".join(extra_flags), src, file_hash(src), extra_key)
    objdir = os.path.join(BUILD, cfg, "obj")
    obj = os.path.join(objdir, key + ".o")
    if os.path.exists(obj):
        os.utime(obj)
        return obj
    with Lock(obj + ".lock"):
        if os.path.exists(obj):
            return obj
        tmp = obj + ".tmp%d" % os.getpid()
        cmd = [c["cxx"]] + c["flags"] + list(extra_flags) + ["-I" + os.path.join(REPO, "src"),
                                                             "-I" + os.path.join(VERIF, "harness"),
                                                             "-c", src, "-o", tmp]
        _run(cmd, "compile " + src)
        os.rename(tmp, obj)
    try:
        os.unlink(obj + ".lock")
    except OSError:
        pass
    return obj


def build_library(cfg, only=None):
    """Compile library sources (optionally only those whose path contains one of `only`)
    and return the archive path."""
    srcs = library_sources()
    if only:
        srcs = [s for s in srcs if any(o in s for o in only)]
    hh = repo_headers_hash()
    with ThreadPoolExecutor(JOBS) as ex:
        objs = list(ex.map(lambda s: compile_object(cfg, s, hh), srcs))
    key = sha(cfg, *objs)
    lib = os.path.join(BUILD, cfg, "lib", "libcelma-%s.a" % key)
    if os.path.exists(lib):
        os.utime(lib)
        return lib
    with Lock(lib + ".lock"):
        if not os.path.exists(lib):
            os.makedirs(os.path.dirname(lib), exist_ok=True)
            tmp = lib + ".tmp%d" % os.getpid()
            if os.path.exists(tmp):
                os.unlink(tmp)
            _run(["ar", "rcs", tmp] + objs, "archive")
            os.rename(tmp, lib)
    _unlink(lib + ".lock")
    return lib


_inc_re = re.compile(r'^\s*#\s*include\s*"([^"]+)"', re.M)


def local_deps(src, seen=None):
    """Transitive closure of #include "..." files that live under /verif/harness."""
    seen = seen if seen is not None else set()
    if src in seen or not os.path.exists(src):
        return seen
    seen.add(src)
    text = open(src, errors="replace").read()
    for inc in _inc_re.findall(text):
        for base in (os.path.dirname(src), os.path.join(VERIF, "harness")):
            p = os.path.normpath(os.path.join(base, inc))
            if os.path.exists(p):
                local_deps(p, seen)
                break
    return seen


def build_harness(name, cfg, sources, use_lib=True, lib_only=None, rapidcheck=True, extra_flags=(), libs=()):
    """Build harness binary `name` from `sources` (paths relative to /verif)."""
    hh = repo_headers_hash()
    srcs = [os.path.join(VERIF, s) for s in sources]

    def comp(s):
        deps = sorted(local_deps(s))
        dk = sha(*[file_hash(d) for d in deps])
        return compile_object(cfg, s, sha(hh, dk), extra_flags)

    with ThreadPoolExecutor(JOBS) as ex:
        fut_objs = ex.submit(lambda: list(ThreadPoolExecutor(JOBS).map(comp, srcs)))
        lib = build_library(cfg, lib_only) if use_lib else None
        objs = fut_objs.result()
    key = sha(cfg, name, lib or "", " ".join(libs), *objs)
    exe = os.path.join(BUILD, cfg, "bin", "%s-%s" % (name, key))
    if os.path.exists(exe):
        os.utime(exe)
        return exe
    with Lock(exe + ".lock"):
        if not os.path.exists(exe):
            os.makedirs(os.path.dirname(exe), exist_ok=True)
            c = CONFIGS[cfg]
            tmp = exe + ".tmp%d" % os.getpid()
            sanflags = [f for f in c["flags"] if f.startswith("-fsanitize") or f.startswith("-fno-sanitize")]
            if cfg in LINK_EXTRA:
                sanflags = LINK_EXTRA[cfg]
            cmd = [c["cxx"]] + sanflags + objs + ([lib] if lib else [])
            if rapidcheck:
                cmd.append("-lrapidcheck")
            cmd += list(libs) + ["-lpthread", "-ldl", "-o", tmp]
            _run(cmd, "link " + name)
            os.rename(tmp, exe)
    _unlink(exe + ".lock")
    return exe


def prune_cache(max_bytes=6 << 30):
    """Drop least recently used cache files when the cache exceeds max_bytes."""
    files = []
    total = 0
    for d, _, fs in os.walk(BUILD):
        if os.sep + "run" in d:
            continue
        for f in fs:
            p = os.path.join(d, f)
            try:
                st = os.stat(p)
            except OSError:
                continue
            files.append((st.st_mtime, st.st_size, p))
            total += st.st_size
    if total <= max_bytes:
        return
    files.sort()
    now = time.time()
    for mt, sz, p in files:
        if total <= max_bytes * 0.7:
            break
        if now - mt < 1800:
            break
        try:
            os.unlink(p)
            total -= sz
        except OSError:
            pass


if __name__ == "__main__":
    t = time.time()
    print(build_library(sys.argv[1] if len(sys.argv) > 1 else "asan"))
    print("%.1fs" % (time.time() - t))
