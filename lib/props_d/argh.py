"""Fragment: the argh engine (C01, C02, C03, ...)."""
from lib.props_common import EXPL

ARGH_LIB = ["/prog_args/", "/appl/arg_string_2_array", "/common/", "/format/", "/container/dynamic_bitset"]
HARNESSES = {
    "argh": dict(cfg="asan", sources=["harness/argh_main.cpp", "harness/argh/real.cpp"], lib_only=ARGH_LIB,
                 kind_text="rapidcheck generators (configuration grammar x abstract line x spelling function x mutations) + "
                           "independent reference model of the argument handler, ASan+UBSan build"),
}
PROPS = {}
MANIFEST_TEXT = {}

KINDS = ["flag", "int", "long", "uint", "double", "string", "opt_int", "opt_string", "vec_int", "vec_string", "list_int",
         "deque_int", "set_int", "multiset_int", "uset_int", "fwdlist_int", "stack_int", "queue_int", "pqueue_int", "array3",
         "carray3", "tuple_isi", "bitset10", "vecbool", "dynbitset", "map_is", "multimap_is", "umap_si"]
MODEL_NOTE = ("Trusts the Celma-free reference model in harness/argh/model.hpp (conversion via strtoll/strtod on canonical text, "
              "per-kind placement of elements, constraint/cardinality bookkeeping) and the spelling function in harness/argh/gen.hpp; "
              "ASan+UBSan monitor every evaluation.")
DOMAIN_ASSUMPTIONS = [
    "argc >= 1, argv[argc] == nullptr",
    "abbreviations are proper prefixes of length >= 2 (a one-character name after '--' is a short key by the key grammar)",
    "a value that starts with '-' or is exactly '(' ')' '!' is only ever attached ('--key=-5', '-k-5'), never given as the next word",
    "optional-value arguments never get a glued value; used without value they are followed by a key or the end of the line",
    "constraint specifications are written exactly like the key specification of the argument they refer to",
    "arguments of an any-of/one-of constraint and of requires/excludes are used at most once; all-of with none of its arguments used is in neither the valid nor the broken set",
    "mandatory arguments' destinations carry no default content; value mode 'optional' only for containers with clear-before-assign and content",
    "numeric text is canonical decimal inside the destination type's range; floating point values are dyadic rationals with short decimal expansions (exact comparison)",
    "free (multi-value) words do not start with '-'; after a multi-value run comes a key, --endvalues or the end of the line",
    "a positional value is a bare word that does not start with '-' and never directly follows a multi-value argument or an argument used without its optional value (it would belong to that one)",
]

PROPS["C01"] = dict(
    units=[dict(harness="argh", mode="spell", quick=dict(cases=25000, opts=dict(spellings=4)),
                thorough=dict(cases=60000, shards=16, opts=dict(spellings=10)))],
    rule="configuration = 1..6 arguments over 28 destination kinds (flag, int, long, unsigned, double, string, optional, 20 container "
         "kinds) with short/long/both keys in 7 spec notations - one argument may be the positional one ('-', receives bare words) -, generated initial contents, container options; abstract line = "
         "rule-obeying uses with generated values; per line the canonical spelling + k independently drawn spellings/orders "
         "(short/long key, unambiguous abbreviation, '=', glued value, flag groups optionally ending in a value key, reordering of "
         "distinct arguments, doubled list separators, --endvalues). Oracle: accepted, destinations == reference model, all "
         "spellings agree, unused destinations keep their initial value. Non-trivial = >= 2 arguments used and >= 2 distinct "
         "spelling features among {abbreviation, '=', glue/group, reordered}; distinct by hash of (configuration, all argv).",
    require_classes=dict(all=["feature.abbrev", "feature.eq", "feature.group_or_glue", "feature.reordered", "evaluated_variants"]
                         + ["kind." + k for k in KINDS]),
    assumptions=DOMAIN_ASSUMPTIONS,
)
MANIFEST_TEXT["C01"] = dict(
    text="Generated argument sets and value assignments are spelled in many legal ways; every spelling must be accepted and leave all "
         "destinations equal to an independent reference model and to each other (metamorphic). " + EXPL,
    design_ref="DESIGN.md sections 3 and 4/C01", note=MODEL_NOTE,
    technique="property-based testing (rapidcheck): model-based + metamorphic (spelling/order invariance) oracle, under ASan/UBSan")

PROPS["C03"] = dict(
    units=[dict(harness="argh", mode="valid", quick=dict(cases=25000, opts=dict(spellings=2)),
                thorough=dict(cases=80000, shards=16, opts=dict(spellings=5)))],
    rule="rule-rich configurations: as C01 plus mandatory flags, value checks (lower, upper, range, value list, min/max length, "
         "pattern), formats (general and per value position), cardinalities (none/max/exact/range), requires/excludes, all-of/any-of/one-of/differ/disjoint, "
         "optional value mode, hidden and deprecated arguments and every usage-display flag present but unused; lines are built "
         "to obey every rule (requiring/excluding arguments placed in the documented order) and are confirmed by the model before "
         "use. Oracle: no exception, destinations == model. Non-trivial = a check/format/cardinality/constraint is active for a "
         "used argument and >= 2 arguments are used; distinct by hash of (configuration, argv).",
    require_classes=dict(all=["attr.check", "attr.format", "attr.format_per_position", "attr.cardinality", "attr.arg_constraint", "attr.constraint_names_short_key", "attr.constraint_names_long_key", "attr.constraint_key_list", "attr.mandatory",
                              "attr.optional_value", "hc.all_of", "hc.any_of", "hc.one_of", "hc.differ", "hc.disjoint",
                              "flag.no_abbr", "evaluated_variants"]),
    assumptions=DOMAIN_ASSUMPTIONS,
)
MANIFEST_TEXT["C03"] = dict(
    text="Every generated rule-obeying command line (validity decided by the independent model, in the documented order-sensitive "
         "sense) must be accepted in every spelling and produce the model's destination values. " + EXPL,
    design_ref="DESIGN.md sections 3 and 4/C03", note=MODEL_NOTE,
    technique="property-based testing (rapidcheck) against a reference model of the declared rules, under ASan/UBSan")

MUTATIONS = ["unknown_short", "unknown_long", "ambiguous_or_unknown_prefix", "drop_mandatory", "missing_value", "duplicate_use",
             "bad_value", "check_violation", "excluded_after_excluder", "missing_required", "all_of_partial", "any_of_two",
             "one_of_none", "one_of_two", "differ_equal", "disjoint_common", "unique_duplicate", "fixed_overflow", "tuple_short",
             "bitset_range", "deprecated_use", "too_few_values", "stray_value", "overlong_key"]
PROPS["C02"] = dict(
    units=[dict(harness="argh", mode="break", quick=dict(cases=40000), thorough=dict(cases=150000, shards=16))],
    rule="a rule-obeying line of a rule-rich configuration (as C03) + exactly one rule-breaking mutation out of 24 kinds applied on "
         "the abstract level (unknown short/long key, a defined long key with characters appended, a stray value word without key, ambiguous or unknown prefix, dropped mandatory argument, missing value, use "
         "beyond the cardinality, too few values, non-convertible value, violation of each check type incl. list elements, excluded "
         "argument after its excluder, missing required argument, all-of partial, any-of two, one-of none/two, differ equal, "
         "disjoint common element, duplicate with unique=error, array/tuple overflow, short tuple, bitset position out of range, "
         "deprecated argument), kept only if the model confirms that the result breaks a rule; then spelled with the full "
         "spelling function. Oracle: evaluation ends in an exception derived from std::exception. Every case is non-trivial by "
         "construction; distinct by hash of (mutation, configuration, argv).",
    require_classes=dict(all=["mutation." + m for m in MUTATIONS] + ["attr.constraint_names_short_key", "attr.constraint_names_long_key", "attr.constraint_key_list"]),
    assumptions=DOMAIN_ASSUMPTIONS + ["'!' before an argument that does not allow inversion is not in the catalogue (the statement lists no such rule)",
                                      "file-system checks are not generated"],
)
MANIFEST_TEXT["C02"] = dict(
    text="Rule-breaking command lines are constructed by mutating valid ones (22 mutation kinds, confirmed by the model) and must "
         "never be reported as success; the run fails as vacuous if any mutation kind was not exercised. " + EXPL,
    design_ref="DESIGN.md sections 3 and 4/C02", note=MODEL_NOTE,
    technique="property-based testing (rapidcheck): mutation of model-valid lines, oracle 'evaluation must throw std::exception', under ASan/UBSan")

CONTAINER_KINDS = [k for k in KINDS if k not in ("flag", "int", "long", "uint", "double", "string", "opt_int", "opt_string")]
PROPS["C06"] = dict(
    units=[dict(harness="argh", mode="fold", quick=dict(cases=30000, opts=dict(cuts=3)),
                thorough=dict(cases=120000, shards=16, opts=dict(cuts=5)))],
    rule="one container destination of each of 20 kinds (vector<int/string>, list, deque, set, multiset, unordered_set, "
         "forward_list, stack, queue, priority_queue, array, C array, tuple, bitset, vector<bool>, DynamicBitset, map, multimap, "
         "unordered_map) x option set legal for the kind (separator, clear-before-assign, sort, unique drop/error, multi-value, "
         "check, format, pair format, unset-flag, cardinality) x generated initial content x a value sequence of 1..12 elements "
         "(duplicates, elements equal to the initial content, positions up to beyond the bitset size, doubled separators) x k "
         "different cuts of that sequence into repeated uses and free words. Oracle: every cut == reference fold (or is refused "
         "like the fold: duplicates with unique=error, overflow of array/tuple/bitset, failing check, cardinality) and all cuts "
         "agree with each other. Non-trivial = (>= 2 uses or a free value) and >= 3 elements and an option among {clear, sort, "
         "unique, separator, format, check} active; distinct by hash of (configuration, all argv).",
    require_classes=dict(all=["fold.free_values", "fold.repeated_use", "fold.refused.duplicate", "fold.refused.fixed array overflow",
                              "fold.refused.bitset position out of range", "attr.clear", "attr.sort", "attr.unique", "attr.listsep"]
                         + ["fold.kind." + k for k in CONTAINER_KINDS]),
    assumptions=DOMAIN_ASSUMPTIONS + [
        "for fixed arrays the duplicate test covers the whole array including slots not assigned yet (pre-existing values count as content)",
        "growth of vector<bool>/DynamicBitset destinations: only 'size > addressed position' is demanded, the factor is the library's choice",
        "map/unordered_map keep the first value given for a key; checks on key-value destinations see the whole pair text (not generated)"],
)
MANIFEST_TEXT["C06"] = dict(
    text="For every container kind the same generated value sequence is delivered in several different cuts (repeated uses, free values, "
         "doubled separators); each result must equal an independent reference fold and all cuts must agree (cut-invariance). " + EXPL,
    design_ref="DESIGN.md sections 3 and 4/C06", note=MODEL_NOTE,
    technique="property-based testing (rapidcheck): reference fold + metamorphic cut-invariance, under ASan/UBSan")

HARNESSES["split"] = dict(cfg="asan", sources=["harness/split.cpp"], lib_only=["/appl/arg_string_2_array"])
PROPS["C07"] = dict(
    units=[
        dict(harness="split", mode="roundtrip", kind="enum", quick=dict(), thorough=dict()),
        dict(harness="split", mode="roundtrip", quick=dict(cases=40000), thorough=dict(cases=400000, shards=8)),
        dict(harness="argh", mode="sources", quick=dict(cases=15000), thorough=dict(cases=60000, shards=16)),
    ],
    rule="(a) word lists of 1..8 non-empty words over printable ASCII incl. blanks, both quote characters and backslashes, each "
         "word written as 1..3 segments in one of 4 quoting styles (backslash before specials, backslash before every character, "
         "single quotes, double quotes), 1..3 separating blanks, leading/trailing blanks, all three constructors; exhaustive part: "
         "every word of length 1..3 over {a, blank, ', \", \\} in each style, alone and between two words. Oracle: argc, every "
         "argv[i] byte for byte, argv[argc]==nullptr. (b) rule-obeying abstract lines of rule-rich configurations whose uses are "
         "split over program-argument file / environment variable / argv in the documented evaluation order (file lines with "
         "several words, comment and empty lines, three quoting styles; both file mechanisms hfReadProgArg and addArgumentFile, the latter also nested (an argument file that names another one between its own lines); "
         "the free values of a multi-value argument may continue on the next file line (comment/empty lines between them) and, when the argument ends the file/environment part, on argv; "
         "both environment mechanisms; program names with and without path). Oracle: destinations == same words on argv == model; "
         "plus a scalar given in file/env and again on argv is accepted and ends with the argv value. Non-trivial = (a) a word "
         "contains a blank, quote or backslash, (b) >= 1 use from a non-argv source and >= 1 from argv; distinct by case hash.",
    require_classes=dict(all=["style.backslash", "style.single", "style.double", "style.backslash_all", "mixed_segments",
                              "source.arg_file", "source.prog_arg_file", "source.env_default_name", "source.env_named",
                              "source.file_comment_line", "source.override", "source.nested_arg_file",
                              "source.nested_arg_file_override", "source.value_list_continued_on_next_line",
                              "source.value_list_continued_on_argv"]),
    assumptions=DOMAIN_ASSUMPTIONS + [
        "'escaping' means the splitter's own documented rules (a backslash protects the next character everywhere, also inside quotes), not POSIX shell quoting",
        "empty words are out of domain (an empty quoted run produces no word; the property says non-empty words)",
        "every file line is newline terminated; key and first value of a use stay on one file line (further free values of a multi-value argument may follow on later lines); words starting with '#' are not generated"],
)
MANIFEST_TEXT["C07"] = dict(
    text="(a) round trip: escaping and joining generated word lists, then splitting, must give the words back (bounded exhaustive + generated); "
         "(b) differential: the same generated valid line delivered partly through an argument file and/or an environment variable must "
         "produce the destination values of the all-on-argv evaluation and of the model, and file/env values can be overridden on argv. " + EXPL,
    design_ref="DESIGN.md section 4/C07", note=MODEL_NOTE + " File and environment are real (per-process scratch HOME directory, setenv).",
    technique="property-based testing (rapidcheck): round-trip + differential (source equivalence) + reference model, bounded exhaustive enumeration for the splitter, under ASan/UBSan")

PROPS["C08"] = dict(
    units=[dict(harness="argh", mode="groups", quick=dict(cases=45000), thorough=dict(cases=100000, shards=16))],
    rule="rule-rich configuration (as C03) x partition of its arguments over 1..4 named member handlers of the Groups singleton "
         "(arguments linked by a constraint stay in one member) x a rule-obeying line or a line with one rule-breaking mutation "
         "(22 kinds, as C02), spelled with the full spelling function. Oracle (differential): Groups::evalArguments and "
         "Handler::evalArguments on one handler owning all arguments give the same accept/reject verdict and, on accept, the same "
         "destination values. Non-trivial = arguments of >= 2 different members are used on the line; distinct by case hash.",
    require_classes=dict(all=["groups.both_accept", "groups.both_reject", "groups.members_1", "groups.members_2", "groups.members_4",
                              "groups.enforced.missing_required", "groups.enforced.all_of_partial", "groups.enforced.one_of_none",
                              "groups.enforced.drop_mandatory", "groups.enforced.duplicate_use", "groups.enforced.check_violation",
                              "groups.enforced.ambiguous_or_unknown_prefix", "groups.enforced.excluded_after_excluder",
                              "groups.enforced.stray_value"]),
    assumptions=DOMAIN_ASSUMPTIONS + [
        "--endvalues is an argument of ONE handler (a second member defining it is refused), so hfEndValues is left out",
        "value mode 'command' and positional arguments are not generated (free values have no key)",
        "constraints live inside one member (argument constraints are per handler by design)"],
)
MANIFEST_TEXT["C08"] = dict(
    text="Differential testing: the same generated command line (valid or rule-breaking) is evaluated through an argument group with a "
         "generated partition of the arguments and through a single handler owning all of them; verdict and stored values must agree. " + EXPL,
    design_ref="DESIGN.md sections 3 and 4/C08",
    note="The reference is the library's own single-handler evaluation (which C01-C03 check against the independent model); Groups is a singleton that is reset before every case.",
    technique="property-based testing (rapidcheck): differential oracle (group evaluation vs. merged single handler), under ASan/UBSan")

HARNESSES["keys"] = dict(cfg="asan", sources=["harness/keys.cpp"], lib_only=ARGH_LIB)
PROPS["C05"] = dict(
    units=[dict(harness="keys", mode="lookup", quick=dict(cases=2500), thorough=dict(cases=20000, shards=16)),
           dict(harness="keys", mode="sublookup", quick=dict(cases=2500), thorough=dict(cases=20000, shards=8)),
           dict(harness="keys", mode="history", quick=dict(cases=2000), thorough=dict(cases=15000, shards=8))],
    rule="(mode history: the same, and after half of the definitions every key and prefix is looked up once with getArgHandler() before the remaining arguments are defined - what a handler answers depends on its keys, not on earlier questions; mode sublookup: the same with 40 % of the specifications defined as sub-group arguments - Handler::addArgument(spec, "
         "subHandler, desc) - whose handler takes the value as positional argument; the key model is the same single key space) "
         "sets of 2..6 key specifications over a collision vocabulary (short keys {a,b,i,o}; long keys in, inp, inpu, input, "
         "input-file, input-format, out, outp, output; 7 spec notations) x abbreviations on/off x ALL definition orders for sets "
         "of up to 4 specifications (6 sampled orders above); per order every exact short key, every exact long key and EVERY "
         "prefix (length 1..len) of every long key plus two undefined keys is looked up with a value on a fresh handler. Oracle: "
         "set-theoretic key model (refusal of addArgument iff short or long key already taken; exact key -> own argument; proper "
         "prefix of length >= 2 selects iff abbreviations are on, exactly one long key starts with it and no exact key equals "
         "it; a one-character name is the short key) and identical outcomes for every definition order. Non-trivial = the set "
         "has a long key that is a proper prefix of >= 2 others, or a refused specification; distinct by case hash.",
    require_classes=dict(all=["key_conflict_refused", "nested_prefix_keys", "abbreviations_off", "all_permutations", "lookups",
                              "sub_group_and_ordinary_arguments", "prefix_relation_across_the_two_kinds", "lookups_between_definitions"]),
    assumptions=["a one-character name after '--' is the short key (key grammar); keys are looked up with a value because all destinations are int variables",
                 "sets of more than 4 specifications are evaluated in 6 sampled definition orders, not all"],
)
MANIFEST_TEXT["C05"] = dict(
    text="Generated key-specification sets built for collisions are defined in all (small sets) or several (larger sets) orders; which "
         "specification is refused and which destination receives the value for every exact key and every prefix must match a "
         "set-theoretic key model and must not depend on the definition order (metamorphic); in a second mode part of the specifications are "
         "sub-group arguments of the same handler (one key space). " + EXPL,
    design_ref="DESIGN.md section 4/C05",
    note="Trusts the 40-line key model in harness/keys.cpp, which never looks at ArgumentKey; each lookup runs on a fresh handler.",
    technique="property-based testing (rapidcheck) + exhaustive permutation of definition orders: reference key model + order-invariance, under ASan/UBSan")
PROPS["C08"]["units"].append(dict(harness="keys", mode="groupdup", quick=dict(cases=6000), thorough=dict(cases=60000, shards=4)))
PROPS["C08"]["rule"] += (" Second unit: key-specification sets (collision vocabulary of C05) spread over 1..3 member handlers in several "
                         "definition orders; addArgument must be refused iff the short or long key is already taken in ANY member.")
PROPS["C08"]["require_classes"]["all"] += ["cross_member_duplicate", "group_orders_evaluated"]

HARNESSES["fuzz_argv"] = dict(cfg="fuzz", sources=["fuzz/fuzz_argv.cpp"], lib_only=ARGH_LIB, rapidcheck=False, kind="fuzz",
                              kind_text="libFuzzer target (clang, ASan+UBSan): structural decoding of the input into handler flags, "
                                        "argument-set menu, argv[0], words, file and environment bodies")
PROPS["C04"] = dict(
    units=[
        dict(harness="argh", mode="mutate", quick=dict(cases=20000), thorough=dict(cases=250000, shards=8)),
        dict(harness="fuzz_argv", mode="raw", kind="fuzz", dict="fuzz/argv.dict",
             quick=dict(cases=180000, shards=4), thorough=dict(cases=4000000, shards=16)),
    ],
    rule="(1) libFuzzer target: the input is decoded into 18 handler-flag bits (help, verbose, no-abbreviation, usage display, "
         "end-values, program-argument file, default and named environment variable, argument-file argument), one of 6 argument "
         "sets (scalars with checks/formats; containers incl. array/tuple/bitset/map with options; level counter, value and pair "
         "destinations, callables; constraints, mandatory and 'command' value mode; positional, brackets and a sub-group handler; "
         "hidden/deprecated arguments with nested long keys), plain handler or a two-member group, argv[0] (empty, path, up to 600 "
         "bytes, random bytes), up to 24 NUL-free words of up to 40 bytes, file and environment bodies; fresh corpus, dictionary "
         "of keys and control words. (2) rapidcheck: valid lines of rule-rich configurations put through 1..4 grammar-aware "
         "mutations (delete/duplicate/swap/truncate words, splice '=', '-', '--', brackets, '!', random bytes, 100..400 byte "
         "words), program names of every shape, mutated file/env sources, plain handler or group. Oracle: no ASan/UBSan report, "
         "only std::exception escapes, evaluation returns (alarm / libFuzzer -timeout). Non-trivial = the evaluation gets at "
         "least one word besides argv[0]; distinct = corpus units (inputs that reached new coverage) for (1), case hash for (2).",
    require_classes=dict(all=["outcome.exception", "outcome.return", "mutate.file_source", "mutate.env_source", "mutate.groups",
                              "fuzz.with_words", "fuzz.returned", "fuzz.threw", "fuzz.file_source", "fuzz.env_source",
                              "fuzz.groups", "fuzz.arg_file"] + ["fuzz.menu_%d" % i for i in range(6)]),
    assumptions=["argc >= 1; words are NUL-free (C strings)",
                 "destinations whose position argument directly sizes an allocation (vector<bool>, DynamicBitset) are left out of the fuzz menu "
                 "(a huge position is a legitimate bad_alloc that ASan turns into an abort); they are covered with bounded positions in C06/C12",
                 "memory leaks are not part of the statement (detect_leaks=0)",
                 "libFuzzer pins a campaign only approximately (-seed, -runs, fresh corpus); the saved artefact is the reproducible unit"],
    wall_cap=dict(quick=600, thorough=3600),
)
MANIFEST_TEXT["C04"] = dict(
    text="Coverage-guided fuzzing (libFuzzer) of a structurally decoded argument vector + sources, and rapidcheck-generated grammar-aware "
         "mutations of valid lines, both under ASan+UBSan with the oracle 'only std::exception may escape, evaluation returns'. " + EXPL,
    design_ref="DESIGN.md section 4/C04",
    note="Trusts ASan/UBSan as monitors (vptr check off, see DESIGN 2.2) and libFuzzer's timeout for termination; flag/source combinations are sampled, the per-class counters in the evidence show which were reached.",
    technique="coverage-guided fuzzing (libFuzzer, structure-aware decoding) + property-based mutation testing (rapidcheck), sanitizers as monitors")

PROPS["C18"] = dict(
    units=[dict(harness="argh", mode="usage", quick=dict(cases=25000), thorough=dict(cases=100000, shards=16))],
    rule="1..10 arguments of all destination kinds with generated attributes (mandatory/optional, hidden, deprecated, replaced-by, "
         "short/long/both keys, long keys of 36..46 characters around the same-line threshold of 40, descriptions of 1..60 words "
         "each carrying a unique marker word, print-default on/off/unset, checks, constraints) x usage settings (hfUsageHidden, "
         "hfUsageDeprecated, --print-hidden, --print-deprecated, --help-short, --help-long given before -h/--help, line length "
         "60..239, always hfUsageCont; in a third of the cases some arguments live in a sub-group handler whose own usage is requested "
         "with '-G -h' after the display settings) and single-argument help --help-arg=<key> / --help-arg-full=<key> for defined short and "
         "long keys and for undefined ones. Oracle: marker of an argument occurs exactly once iff the model's visibility predicate "
         "holds, under the right caption, in an entry whose key line shows exactly its keys; 'Default value:', 'Check:', "
         "'Constraint:', '[hidden]', '[deprecated]', '[replaced by' present iff configured; single-argument help shows only that "
         "argument's marker or reports 'is unknown'. Layout is not compared. Non-trivial = >= 1 invisible and >= 2 visible "
         "arguments and a non-default usage setting, or a single-argument help; distinct by case hash.",
    require_classes=dict(all=["usage.full", "usage.printed_twice", "usage.sub_group", "usage.one_character_long_key", "usage.help_arg", "usage.help_arg_unknown", "usage.print_hidden", "usage.print_deprecated",
                              "usage.short_only", "usage.long_only", "usage.line_length_set", "usage.long_key_own_line"]),
    assumptions=["--print-hidden / --print-deprecated are not combined with hfUsageHidden / hfUsageDeprecated (the argument is a flag that toggles the current setting)",
                 "description words do not start with '-' and are not the token 'nn' (TextBlock gives them a layout meaning)",
                 "setPrintDefault() is only called for destinations that can print a default (plain scalars, tuple)",
                 "Handler::usage consults the Groups singleton; the harness never evaluates through Groups in a usage case"],
)
MANIFEST_TEXT["C18"] = dict(
    text="Generated argument sets with visibility attributes are printed through the real help arguments; every argument carries a unique "
         "marker word whose number of occurrences, section and entry are judged against an independent visibility predicate. " + EXPL,
    design_ref="DESIGN.md section 4/C18",
    note="Judges membership, section, keys and the configured notes of every entry; the layout (wrapping, column alignment) is deliberately not compared (C17 covers the text block).",
    technique="property-based testing (rapidcheck) with a marker-word counting oracle and an independent visibility model, under ASan/UBSan")

HARNESSES["mt_argh"] = dict(cfg="tsan", sources=["harness/mt_argh.cpp", "harness/argh/real.cpp"], lib_only=ARGH_LIB, threaded=True,
                            kind_text="rapidcheck-generated per-thread workloads (argh engine) run from 2..16 threads, ThreadSanitizer build")
HARNESSES["mt_argh_plain"] = dict(cfg="plain", sources=["harness/mt_argh.cpp", "harness/argh/real.cpp"], lib_only=ARGH_LIB, threaded=True,
                                  kind_text="same workloads in an uninstrumented -O2 build (value oracle at full speed)")
PROPS["C09"] = dict(
    units=[dict(harness="mt_argh", mode="threads", quick=dict(cases=700, shards=8, opts=dict(max_repeats=12)),
                thorough=dict(cases=2500, shards=16, opts=dict(max_repeats=40))),
           dict(harness="mt_argh_plain", mode="threads", quick=dict(cases=1500, shards=8, opts=dict(max_repeats=40)),
                thorough=dict(cases=5000, shards=16, opts=dict(max_repeats=100)))],
    rule="2..16 threads, each with its own generated rule-rich configuration (checks, formats, cardinalities, argument and handler "
         "constraints, container destinations with per-thread list separators) and its own valid or rule-breaking command line (unknown key, or a single-value argument used twice so that the outcome depends on the cardinality bookkeeping); a third of the valid lines deliver their first words through an environment variable of the thread's own (set before the threads exist); "
         "each thread constructs its handler and evaluates the line r times (r generated) after a common start signal and a "
         "generated per-thread spin delay. Oracle: every repetition in every thread gives the verdict and destination values of "
         "the same work done alone in the same process; ThreadSanitizer reports nothing (TSan build) - the same cases also run "
         "in an uninstrumented build for the value oracle at full speed. Non-trivial = >= 2 threads split lists and (they use "
         "different separators or >= 2 threads register constraints); distinct by case hash.",
    require_classes=dict(all=["mt.different_list_separators", "mt.concurrent_constraints", "mt.eight_or_more_threads", "mt.broken_line", "mt.usage_printed",
                              "mt.environment_source", "mt.outcome_depends_on_cardinality"]),
    assumptions=DOMAIN_ASSUMPTIONS + ["handlers share no destination variables; only the argv source is used (files and environment are process-global)",
                                      "schedules are sampled, not enumerated; ThreadSanitizer generalises over races whose two accesses both execute in a run"],
    wall_cap=dict(quick=600, thorough=3600),
)
MANIFEST_TEXT["C09"] = dict(
    text="Generated independent handler workloads are run concurrently from up to 16 threads, many repetitions each, under ThreadSanitizer and "
         "in a plain build; per-thread verdicts and destination values must equal the sequential run and TSan must stay silent. " + EXPL,
    design_ref="DESIGN.md sections 4/C09 and 6",
    note="Interleavings are sampled (start barrier + generated spin delays + repetitions), not enumerated; TSan flags a race whenever both accesses execute, whatever the observed order. Liveness is not claimed.",
    technique="property-based testing (rapidcheck) of concurrent workloads: differential against the sequential run + ThreadSanitizer as race monitor")

