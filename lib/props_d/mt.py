"""Fragment: C20 (Singleton / ManagedThread under generated schedules)."""
from lib.props_common import EXPL

_SRC = ["harness/mt_helpers.cpp"]

HARNESSES = {
    # same source twice: ThreadSanitizer as race monitor / uninstrumented -O2 for the value oracle at full speed.
    # threaded=True: a failing generated case is replayed 3x before it counts (any of the 3 failing = VIOLATION).
    "mt_helpers_tsan": dict(cfg="tsan", sources=_SRC, use_lib=False, threaded=True,
                            kind_text="rapidcheck-generated thread schedules (thread counts, spin counts, delays, forced orders; "
                                      "pthread_create interposed in the harness) + explicit value oracle, ThreadSanitizer build "
                                      "(race monitor)"),
    "mt_helpers_plain": dict(cfg="plain", sources=_SRC, use_lib=False, threaded=True,
                             kind_text="rapidcheck-generated thread schedules (thread counts, spin counts, delays, forced orders; "
                                       "pthread_create interposed in the harness) + explicit value oracle, plain -O2 build"),
}

PROPS = {}

PROPS["C20"] = dict(
    units=[
        # ThreadSanitizer costs ~10x and thread creation dominates: more rounds per case, fewer cases
        dict(harness="mt_helpers_tsan", mode="singleton",
             quick=dict(cases=1200, opts=dict(maxrounds=12)),
             thorough=dict(cases=8000, shards=4, opts=dict(maxrounds=12))),
        dict(harness="mt_helpers_tsan", mode="managed_thread",
             quick=dict(cases=4000), thorough=dict(cases=30000, shards=4)),
        dict(harness="mt_helpers_plain", mode="singleton",
             quick=dict(cases=3000), thorough=dict(cases=30000, shards=4)),
        dict(harness="mt_helpers_plain", mode="managed_thread",
             quick=dict(cases=15000), thorough=dict(cases=150000, shards=4)),
    ],
    rule="(a) singleton: a case = K in 2..16 threads (weighted 2 / 3-4 / 5-8 / 9-16), a CPU placement base, and 1..8 "
         "(TSan unit: 1..12) rounds; a round = constructor busy-wait 0..200 us, per-thread spin count (profiles: all 0 / "
         "0..200 / 0..200000 iterations) burnt between leaving a spin barrier and the first instance() call, and the "
         "number (1..3) of threads that call reset() at once afterwards. Per round: constructions == 1, every thread got "
         "the same address from both of its calls, reads the values the constructor wrote last, destructions == 1 after "
         "the reset. (b) managed thread: a case = 1..3 ManagedThread objects alive together, each with d1 (creating thread "
         "held after the real pthread_create returned, 0..500 us, 1 in 25: up to 4 ms), d2 (new thread held before its start "
         "routine, same distribution), "
         "observer delay 0..300 us, order (timed / child forced first / creator forced first), blocking or immediately "
         "returning function, join() or join-by-destructor, placement hint, observer = creating thread or a separate thread. "
         "isActive() must be true at both samples taken after the function's 'started' flag was acquired and before the "
         "harness releases it, false after release + join(). Both builds run the same oracle; the TSan build additionally "
         "fails on any race report. Non-trivial = (a) at least one round with >= 2 threads inside instance() before the "
         "object existed (measured in the constructor), (b) a thread with d1 != d2 or a forced order; distinct by hash of "
         "the serialised case (= the schedule parameters).",
    require_classes=dict(all=[
        "singleton.overlap_ge2_threads_inside_before_object_exists", "singleton.overlap_all_threads",
        "singleton.some_thread_on_fast_path", "singleton.concurrent_reset", "singleton.ctor_sleep_0",
        "singleton.k.2", "singleton.k.9_16", "singleton.mixed_call_forms",
        "mt.timed.d1_gt_d2", "mt.timed.d2_gt_d1", "mt.forced.child_first", "mt.forced.creator_first",
        "mt.measured.function_ran_before_constructor_returned", "mt.measured.function_ran_after_constructor_returned",
        "mt.observer_thread", "mt.join_by_destructor", "mt.nonblocking_function",
        "tsan_build.singleton.rounds_with_overlap_ge2", "plain_build.singleton.rounds_with_overlap_ge2",
        "tsan_build.mt.function_ran_before_constructor_returned", "plain_build.mt.function_ran_before_constructor_returned",
        "tsan_build.mt.pthread_create_steered", "plain_build.mt.pthread_create_steered"]),
    assumptions=[
        "WHAT IS SAMPLED: schedules. Thread counts, spin counts, delays and forced orders are generated and the OS scheduler "
        "(on a possibly oversubscribed box) adds its own noise; interleavings are not enumerated and a run of one case "
        "exercises one interleaving. The evidence classes (overlap_*, measured.*) are measured per run, not implied by the case.",
        "WHAT ThreadSanitizer GENERALISES OVER: within one executed run it reports two conflicting accesses that are not "
        "ordered by happens-before even if they did not collide in time, i.e. it generalises over the timings that share "
        "the run's synchronisation skeleton (who took the slow path, who took the lock first). It does not generalise over "
        "skeletons that were never executed, sees only code compiled with -fsanitize=thread (the header-only code under "
        "test is), and keeps a bounded access history (history_size=4).",
        "the harness' own steering uses relaxed atomics and clock-based busy-waits only, so it adds no happens-before edge "
        "that could hide a race; the barrier before a round and the started/release flags are the only synchronisation it adds",
        "isActive() is judged only at points proven by happens-before (after an acquire load saw the 'started' flag the "
        "thread function set, before the harness stores 'release'; after join()); samples at unproven points are taken "
        "(for the race monitor) but their value is not judged",
        "reset() is only called while no thread uses the object; concurrent reset() calls are in the domain because the "
        "header documents the mutex as making 'creation/resetting' thread-safe",
        "ManagedThread arguments are passed as rvalues (as in the in-tree test); liveness (termination of join) is not claimed",
        "durations are generated case data and only shape the schedule; no verdict depends on the clock",
    ],
)

MANIFEST_TEXT = {}
MANIFEST_TEXT["C20"] = dict(
    text="Schedules are part of the generated case: 2..16 threads leave a spin barrier with generated spin counts and race for the "
         "first Singleton access while the constructor busy-waits a generated time (rounds separated by reset()); for ManagedThread "
         "the harness interposes pthread_create and holds the creating thread (d1) and the new thread (d2) for generated times or "
         "forces their order. Oracle: one construction and one address per round, isActive() true at points proven to lie between "
         "'function started' and 'released', false after join; the same cases run in a ThreadSanitizer build that must stay "
         "silent. Sampled: schedules (not enumerated); ThreadSanitizer generalises each executed run over all timings with the "
         "same synchronisation skeleton, not over unexecuted ones. " + EXPL,
    design_ref="DESIGN.md section 4, C20",
    note="Trusts ThreadSanitizer (gcc 12 libtsan) as race monitor and the harness' own barrier/flags; schedules are steered and "
         "sampled, never enumerated; liveness is not claimed.",
    technique="property-based testing with generated thread schedules (rapidcheck; spin/delay counts, pthread_create interposition) "
              "against an explicit value oracle, in a plain and a ThreadSanitizer build")
