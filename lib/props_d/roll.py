"""Fragment: C15 (rolling log files)."""
from lib.props_common import EXPL

HARNESSES = {
    # minimal set of library sources that links: the file policies + file name classes, the file
    # operations seam they use, LogMsg (+ its two helpers), and what files::Handler needs
    # (ILogDest -> filter::Filters, default stream formatter).
    "log_roll": dict(cfg="asan", sources=["harness/log_roll.cpp"],
                     lib_only=["/log/files/", "/log/filename/", "/log/filter/",
                               "/log/detail/log_msg.cpp", "/log/detail/i_log_dest.cpp",
                               "/log/detail/format_stream_default.cpp",
                               "/common/file_operations.cpp", "/common/detail/file_funcs_os.cpp",
                               "/common/exception_base.cpp", "/common/extract_funcname.cpp"]),
}

PROPS = {}

PROPS["C15"] = dict(
    units=[
        dict(harness="log_roll", mode="hist", kind="enum",
             quick=dict(shards=12, opts=dict(maxlen=7)), thorough=dict(shards=16, opts=dict(maxlen=9))),
        dict(harness="log_roll", mode="hist", quick=dict(cases=6000, size=100, shards=4),
             thorough=dict(cases=25000, size=100, shards=16)),
    ],
    rule="configuration = policy x limit x maximum generations 1..4 (file names log.NN, minimum width 2) or 11..12 (minimum width 1: log.0 .. log.9, log.10, log.11; small limits, 30..60 events); history over {write short, write medium, write long message "
         "(each text+newline strictly below the limit), reopen = destroy the policy (or the files::Handler owning it) and construct a "
         "new one on the same directory}. Exhaustive part: ALL histories of length 7 (quick) / 9 (thorough) for the 20 configurations "
         "of the small range (Counted max_entries 1..3 x generations 1..3, Counted 1 x 4; MaxSize limit {8,10,13} bytes x generations "
         "1..3, MaxSize 8 x 4) and all histories of length 5 / 7 for the 20 configurations of the wider range (Counted up to 4 entries, "
         "MaxSize limits {9,16,24}, 4 generations) - the oracle is evaluated after every event, so every shorter history is covered as "
         "a prefix. Generated part: rapidcheck histories of 1..60 events, Counted 1..5 / MaxSize every limit 8..48 with generated "
         "message lengths, half of them through files::Handler. Real files in a fresh per-case directory, names from "
         "filename::Creator/Builder with a generation number and no date part. Non-trivial = history with at least one roll and at "
         "least one reopen that follows a write into the current file; distinct by hash of the serialised case (config + history).",
    # real file-system work: ~8k cases/s on a quiet box with the scratch directory on disk (6x that on tmpfs), but the
    # journal is shared with everything else that runs; the cap is only the safety net of DESIGN 2.3(5)
    wall_cap=dict(quick=900, thorough=7200),
    require_classes=dict(all=["policy.counted", "policy.maxsize", "via.policy", "via.handler", "gens.1", "write.append", "write.roll",
                              "write.boundary_exact", "write.oversized_message", "reopen.nonempty", "reopen.empty", "reopen.roll", "roll.dropped_oldest", "gens.ten_or_more_with_one_digit_minimum_width"]),
    assumptions=[
        "a message is text + one newline byte (PolicyBase::writeMessage writes msg_text << std::endl); sizes are bytes on disk",
        "ordinary messages fit into an empty file under the strictest reading (text+newline strictly below the MaxSize limit), so no "
        "reading of the limit forces two rolls for one message; additionally MaxSize histories contain messages LONGER than the limit: "
        "such a message may exceed the limit only alone in its generation, and both 'append to an empty current file' and 'roll first' are accepted for it",
        "MaxSize boundary convention is undocumented and read generously: when text+newline would make the file exactly as large as "
        "the limit both appending and rolling are accepted; appending is wrong only above the limit, rolling only strictly below it",
        "Counted: 'maximum number of entries to write into a log file' / writeCheck 'maximum not yet reached' - a file holds up to "
        "max_entries lines, a roll at a write is justified only when the file already holds max_entries",
        "reopen: Counted may roll a non-empty file (documented in Counted::openCheck: usable 'i.e. it is empty') but need not; "
        "MaxSize may roll only when the limit is reached (not even a one-character message would stay below it); an empty file is never rolled; "
        "with max generations = 1 a permitted roll at reopen legitimately leaves no message at all",
        "a roll moves every generation up by one and deletes only the generation that would get number max_generations "
        "('maximum number of log file generations to keep'); losing a younger generation counts as loss",
        "a current file that does not exist yet is treated like an empty one (when generation 0 is created is not part of the property); "
        "an empty OLDER generation file counts as a generation that was started without need",
        "restarts happen between messages (clean destruction); crashes inside rollFiles are not injected",
        "file names log.<2-digit generation>, no date part (time-dependent names are outside a deterministic oracle)",
    ],
)

MANIFEST_TEXT = {}
MANIFEST_TEXT["C15"] = dict(
    text="Model-based testing on the real file system: Counted and MaxSize policies (directly and inside files::Handler) write unique "
         "messages into a fresh directory; after every write and every restart the directory is read back and compared with the "
         "permitted successors of the previous directory state (append, or roll by one generation where the limit justifies it), plus "
         "the property's own clauses (contiguous suffix of the written sequence, complete lines, per-file limit, number of files). "
         "All histories up to length 7 (quick) / 9 (thorough) over 20 small configurations (5 / 7 over 20 wider ones) are enumerated exhaustively; longer "
         "histories (up to 60 events) and all limits 8..48 are generated. " + EXPL,
    design_ref="DESIGN.md section 4, C15",
    note="Trusts the 40-line directory model in harness/log_roll.cpp and the generous reading of the undocumented MaxSize boundary; "
         "restarts are clean (between messages), crash points inside a roll are not injected.",
    technique="stateful model-based property testing (rapidcheck) + bounded exhaustive enumeration of histories against a directory-state reference model, under ASan/UBSan")
