"""Fragment: C10, C11 (celma::common::FixedString<L>)."""
from lib.props_common import EXPL

_SAFETY_SRC = ["harness/fs_safety.cpp"] + ["harness/fs_safety_%s.cpp" % g for g in "abcd"]
_MODEL_SRC = ["harness/fs_model.cpp"] + ["harness/fs_model_%s.cpp" % g for g in "abcd"]

HARNESSES = {
    # header-only code under test: no library objects; one TU per capacity group (compiled in parallel)
    "fs_safety": dict(cfg="asan", sources=_SAFETY_SRC, use_lib=False),
    "fs_model": dict(cfg="asan", sources=_MODEL_SRC, use_lib=False),
    "fuzz_fs": dict(cfg="fuzz", sources=["fuzz/fuzz_fs.cpp"], use_lib=False, rapidcheck=False, kind="fuzz",
                    kind_text="libFuzzer target (clang, ASan+UBSan): bytes decoded with FuzzedDataProvider into the same operation "
                              "stream for FixedString<8/255/256>, C10 oracle and (arguments forced in-domain) C11 oracle inside the target"),
}

_CAPS = [1, 2, 3, 4, 5, 7, 8, 16, 31, 255, 256, 1000, 65535, 65536]

# every operation kind of harness/fs_common.hpp (FS_OPS); iter_walk exists in the C10 harness only
_OPS_COMMON = """ctor_default ctor_cstr ctor_str ctor_copy ctor_fs ctor_move assign_cstr assign_str assign_fs opassign_cstr
opassign_str opassign_fs clear at index front_back write_ref iter_fwd iter_rev iter_random insert_cnt_ch insert_cstr_cnt
insert_cstr insert_str insert_str_sub insert_fs insert_fs_sub insert_it_ch insert_it_cnt_ch insert_it_ilist erase erase_it
erase_range push_back pop_back append_cnt_ch append_str append_fs append_str_sub append_fs_sub append_cstr_cnt append_cstr
append_range sprintf plus_fs plus_str plus_cstr plus_ch cmp_fs cmp_str cmp_cstr cmp_pc_fs cmp_pc_str cmp_pc_cstr cmp_pcpc_fs
cmp_pcpc_str cmp_pc_cstr_c starts_fs starts_str starts_cstr starts_ch ends_fs ends_str ends_cstr ends_ch contains_fs
contains_str contains_cstr contains_ch repl_fs repl_str repl_fs_sub repl_str_sub repl_it_it repl_it_strit repl_it_cstr_cnt
repl_cstr repl_cstr_cnt repl_it_cstr repl_cnt_ch repl_it_cnt_ch repl_it_ilist substr copy swap find_fs find_str find_cstr_cnt
find_cstr find_ch rfind_fs rfind_str rfind_cstr_cnt rfind_cstr rfind_ch ffo_fs ffo_str ffo_cstr_cnt ffo_cstr ffo_ch ffno_fs
ffno_str ffno_cstr_cnt ffno_cstr ffno_ch flo_fs flo_str flo_cstr_cnt flo_cstr flo_ch flno_fs flno_str flno_cstr_cnt flno_cstr
flno_ch eq_ne stream peer_assign""".split()

PROPS = {}

PROPS["C10"] = dict(
    units=[
        dict(harness="fs_safety", mode="ops", kind="enum", quick=dict(shards=8, opts=dict(maxcap=2, maxtext=2)),
             thorough=dict(shards=16, opts=dict(maxcap=3, maxtext=2))),
        dict(harness="fs_safety", mode="ops", quick=dict(cases=20000, size=100, shards=8),
             thorough=dict(cases=150000, size=100, shards=16)),
        dict(harness="fuzz_fs", mode="raw", kind="fuzz", quick=dict(cases=150000, shards=4, max_len=512),
             thorough=dict(cases=1200000, shards=8, max_len=512)),
    ],
    rule="exhaustive part: capacities 1..2 (thorough: 1..3) x every content over {a,b} x every single operation kind x every variant x "
         "every source object x source texts over {a,b} of length 0..2 x the argument grid {0..max(length,source length,L)+2, npos-1, "
         "npos} for every position/count argument; generated part: "
         "FixedString<L> for L in {1,2,3,4,5,7,8,16,31,255,256,1000,65535,65536} (small and 255/256 weighted up), placed either in an "
         "exact-size heap block (ASan red zones on both sides) or between two 64-byte canary arrays; a second FixedString<L> as swap "
         "partner/same-capacity source; 1..40 operations (1..6 for L>=65535) out of 119 operation kinds that cover all ~150 public overloads (constructors, "
         "assign/=, 10 insert, 3 erase, push/pop_back, 8 append, 4 +=, sprintf, 13 replace, swap, clear, substr, copy, at/[]/front/back/"
         "data, 9 compare, starts/ends_with/contains, the 30 search overloads, ==/!=/<<, forward/reverse/random-access iteration and "
         "arbitrary iterator arithmetic). Arguments are symbolic base+offset values resolved at run time: 0, 1, length-1, length, "
         "length+1, L-1, L, L+1, 2L, remaining capacity +-1, source length +-1, 255/256/65535/65536/10^6, npos, npos-k (so that pos+count "
         "wraps around), uniform in [0,L+8]; iterator positions anywhere incl. end() and reversed ranges; source texts of length 0..L+300 "
         "(70000 for L>=1000) as C string, std::string (heap object), FixedString<4/300/70000>, another FixedString<L>, or the object "
         "itself; occasional embedded NUL (then the strlen clause is switched off). After EVERY operation: canaries intact, length()<=L, "
         "c_str()[length()]==0, strlen(c_str())==length() unless a NUL was stored, const sources unchanged; ASan/UBSan abort = violation; "
         "a noexcept function ending in std::terminate = violation. Third engine: libFuzzer target fuzz_fs decoding bytes into the same "
         "operation stream for L in {8,255,256} (up to 24 operations, same oracle, then the C11 oracle on the in-domain projection of "
         "the same case). Non-trivial = the sequence contains at least one argument beyond "
         "the current length / remaining capacity / source length; distinct by hash of the serialised case.",
    require_classes=dict(all=["op." + n for n in _OPS_COMMON + ["iter_walk"]] + ["cap.%d" % c for c in _CAPS]
                         + ["placement.exact_heap", "placement.canary_struct", "source.self",
                            "fuzz.execs", "fuzz.cap_8", "fuzz.cap_255", "fuzz.cap_256"]),
    assumptions=[
        "pointer arguments point to what they claim: const char* sources are NUL-terminated exact-size heap blocks and a count given "
        "together with a const char* never exceeds the characters behind the pointer (insert/append/replace/compare/find(str,count)); "
        "std::string::iterator pairs form a valid range; copy() gets a destination of min(count, length()-pos) bytes",
        "operator[] (string and iterators) is called with an index <= length() only: the documentation declares everything else undefined; "
        "references handed out by at()/[]/front()/back()/data()/iterators are used to overwrite existing characters only",
        "iterators passed to a FixedString belong to it (or, for source ranges, to one other FixedString<L>); any order of first/last is generated",
        "sprintf is called with well-formed format/argument combinations and never with the object itself as argument",
        "documented exceptions are not violations: std::out_of_range from at(), std::range_error/std::invalid_argument from dereferencing "
        "an end iterator",
        "reads of uninitialised bytes are not monitored (no MSan); over-reads that stay inside a std::string's small-string buffer are "
        "invisible to ASan (they are seen by C11 through the wrong content)",
    ],
)

PROPS["C11"] = dict(
    units=[
        dict(harness="fs_model", mode="ops", kind="enum", quick=dict(shards=8, opts=dict(maxcap=4, maxtext=3)),
             thorough=dict(shards=16, opts=dict(maxcap=5, maxtext=3))),
        dict(harness="fs_model", mode="ops", quick=dict(cases=15000, size=100, shards=8),
             thorough=dict(cases=120000, size=100, shards=16)),
    ],
    rule="exhaustive part: every content over {a,b} of length 0..L for L<=4 (thorough: L<=5) x every operation kind x every variant "
         "(default arguments, const overloads) x every source object (FixedString<4>, another FixedString<L>, the object itself, a "
         "temporary FixedString<L>) x every in-domain argument tuple (positions 0..length, counts 0..length+1 and npos, source positions "
         "0..source length, source counts 0..source length+1 and npos, iterator ranges first<last<=end) x every source text over {a,b} of "
         "length 0..3 (1..3 for search patterns); generated part: capacities {1,...,65536} as in C10, alphabets {a,b}, {a,b,c} or "
         "printable, sequences of 1..30 operations with in-domain arguments biased to 0, length-1, length, remaining capacity +-1, npos. "
         "Oracle: the same operation on a std::string followed by resize(min(size,L)); str()/length()/c_str()/empty() after every "
         "operation for both objects, every observer's return value (compare by sign), == and != complementary across capacities. "
         "Non-trivial = the sequence reaches length()==L at least once and contains at least one observer and one mutator that "
         "acts before the end of the string; distinct by hash of the serialised case.",
    require_classes=dict(all=["op." + n for n in _OPS_COMMON] + ["cap.%d" % c for c in _CAPS] + ["model.reached_capacity", "source.self"]),
    assumptions=[
        "positions are <= length() (std::string would throw beyond; FixedString is noexcept and ignores the call - not compared)",
        "iterator overloads (insert/erase/replace/append): position strictly before end(), non-empty ranges first<last, non-empty "
        "replacement text - the documentation and the in-tree tests call everything else 'invalid iterators' that leave the string "
        "unchanged, where std::string would insert/erase",
        "search patterns and character sets are non-empty (FixedString answers npos/false for empty ones by design); searched "
        "characters and contents are printable (no embedded NUL)",
        "backward searches rfind(ch), find_last_of, find_last_not_of start at a character position (< length()) or at the documented "
        "default npos: the in-tree test pins rfind('l', 20) == npos for a 20-character string, std::string would clamp",
        "at(length()) is kept out (std::string throws, FixedString returns the terminator; 'after the end of the string' is ambiguous); "
        "at(>length()) must throw std::out_of_range, front()/back() of an empty string return the zero character as documented",
        "repetition counts (insert/append/replace count x ch) stay below 2L+600: beyond max_size std::string throws length_error",
        "a count given together with a const char* never exceeds the C string's length; pop_back() on an empty string is a no-op",
        "return values of mutators (iterators, *this) are not part of the property and not compared",
    ],
)

MANIFEST_TEXT = {}
MANIFEST_TEXT["C10"] = dict(
    text="Stateful generated operation sequences over all public FixedString operations with boundary-biased and far out-of-domain "
         "positions, counts and source sizes (incl. npos and values that make pos+count wrap around), on capacities from 1 to 65536 "
         "incl. both length-type boundaries; the object lives in an exact-size heap block or between canaries, sources in exact-size "
         "heap blocks; the well-formedness invariants are checked after every operation and ASan/UBSan monitor every access. All single "
         "operations on all contents over {a,b} for capacities 1..2 (thorough 1..3) with an argument grid that includes npos-1/npos are "
         "enumerated exhaustively, and a libFuzzer target explores the same operation stream coverage-guided for L=8/255/256. " + EXPL,
    design_ref="DESIGN.md section 4, C10",
    note="Trusts ASan/UBSan as monitors and the harness' bookkeeping of 'a NUL was stored'; writes that stay inside the object (length "
         "member) are seen only through the invariants.",
    technique="stateful property-based testing (rapidcheck) with out-of-domain arguments + bounded exhaustive enumeration + coverage-guided "
              "fuzzing (libFuzzer), under ASan/UBSan with canary/invariant oracle")
MANIFEST_TEXT["C11"] = dict(
    text="Model-based differential testing against std::string cut off at the capacity: all single operations on all contents over "
         "{a,b} up to capacity 4 with all small in-domain argument tuples are enumerated exhaustively; longer histories, printable "
         "contents and capacities up to 65536 are generated. Every mutator is followed by a full state comparison, every observer's "
         "result is compared with std::string's. " + EXPL,
    design_ref="DESIGN.md section 4, C11",
    note="Trusts libstdc++'s std::string and the argument-domain table in harness/fs_common.hpp (roles); behaviour outside the "
         "documented domain is C10's business and not compared here.",
    technique="stateful model-based property testing (rapidcheck) + bounded exhaustive enumeration against std::string")
