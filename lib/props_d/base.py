"""Fragment: C12, C13, C17, C19."""
from lib.props_common import EXPL

HARNESSES = {
    "buffers": dict(cfg="asan", sources=["harness/buffers.cpp"], use_lib=False),
    "int2str": dict(cfg="asan_nso", sources=["harness/int2str.cpp"], lib_only=["/format/detail/"]),
    "int2str_fast": dict(cfg="plain", sources=["harness/int2str.cpp"], lib_only=["/format/detail/"],
                         kind_text="bounded exhaustive enumeration (all 2^32 values), plain -O2 build with canaries"),
    "textblock": dict(cfg="asan", sources=["harness/textblock.cpp"], lib_only=["/format/text_block.cpp"]),
    "dbs_model": dict(cfg="asan", sources=["harness/dbs_model.cpp"], lib_only=["/container/dynamic_bitset.cpp"]),
}

PROPS = {}

PROPS["C19"] = dict(
    units=[
        dict(harness="buffers", mode="read", kind="enum", quick=dict(), thorough=dict()),
        dict(harness="buffers", mode="write", kind="enum", quick=dict(), thorough=dict()),
        dict(harness="buffers", mode="read", quick=dict(cases=150000, size=100),
             thorough=dict(cases=1500000, size=200, shards=8)),
        dict(harness="buffers", mode="write", quick=dict(cases=150000, size=100),
             thorough=dict(cases=1500000, size=200, shards=8)),
    ],
    rule="read: buffer size N in {1,2,3,4,5,8,16,64} x source of generated length x cyclic chunk script "
         "(1 byte / full request / generated size) x sequence of get lengths 0..N+3 incl. nullptr requests; "
         "write: N x sequence of append lengths 0..2N+3 (half of them through uint16_t*/uint32_t* pointers, the length always being a byte count), flush, nullptr appends x injected sink failures (a failing writeData() call "
         "consumes nothing and throws; the caller repeats the operation); exhaustive part: N<=3, all "
         "sequences up to length 5 (read: x 6 chunk scripts x 3 source slacks). Non-trivial = a get() that needs a "
         "refill while bytes are still buffered (compaction path), resp. an append() that forces a flush; distinct "
         "by hash of the serialised case.",
    require_classes=dict(all=["read.refill_with_buffered_data", "read.refused_too_long", "write.forced_flush",
                              "write.pass_through", "read.refill_multi_chunk", "write.sink_failure_retried", "write.typed_pointer", "write.typed_pointer_oversized_block_on_filled_buffer"]),
    assumptions=["the source never returns 0 bytes while requested data is outstanding (ReadBuffer has no EOF protocol)",
                 "total requested bytes never exceed the source length"],
)

PROPS["C13"] = dict(
    units=[
        dict(harness="int2str", mode="small", kind="enum", quick=dict(), thorough=dict()),
        dict(harness="int2str", mode="boundaries", kind="enum", quick=dict(), thorough=dict()),
        dict(harness="int2str", mode="rand", quick=dict(cases=150000), thorough=dict(cases=400000, shards=8)),
        dict(harness="int2str_fast", mode="sweep32", kind="enum",
             quick=dict(shards=8, opts=dict(stride=101)), thorough=dict(shards=16, opts=dict(stride=1))),
        dict(harness="int2str_fast", mode="sweep64", kind="enum",
             quick=dict(shards=8, opts=dict(count=5000000)), thorough=dict(shards=16, opts=dict(count=40000000))),
    ],
    rule="int8/uint8/int16/uint16: every value (x4 group characters; all 256 char values incl. NUL for the 8-bit types and a "
         "sample of the 16-bit ones); int32/uint32: stride sweep in the quick tier, every one of the 2^32 values in "
         "the thorough tier (16 shards); 32/64 bit: every 10^k+-2, 2^k+-2, limits x all 256 group characters (NUL and non-ASCII included); "
         "64 bit: low-discrepancy walk over all magnitudes + rapidcheck-generated values (uniform bit width, then "
         "uniform value) with generated group characters. Each value is checked in 4 variants (plain/grouped x "
         "string/buffer) + round trip. Non-trivial = value needs at least one group character (|v|>=1000) or lies "
         "within +-2 of a power of ten; enumerated values are distinct by construction and counted exactly, "
         "generated ones by fingerprint.",
    require_classes=dict(all=["enumerated_all_values.int8", "enumerated_all_values.uint16", "boundary.int64",
                              "boundary.uint64", "type.int64", "type.uint64", "sweep32.values_per_type", "sweep64.values"]),
    assumptions=["signed-overflow UB when negating the type minimum is outside the property (text is what counts): "
                 "harness built with -fno-sanitize=signed-integer-overflow",
                 "round trip uses celma::format::stringTo<T> on the plain text only (grouped text is not parseable by design)",
                 "the full 32-bit sweep runs in an uninstrumented -O2 build with canary bytes around the buffer; "
                 "the sampled parts run under ASan with exact-size heap buffers"],
)

PROPS["C17"] = dict(
    units=[
        dict(harness="textblock", mode="format", kind="enum", quick=dict(), thorough=dict()),
        dict(harness="textblock", mode="format", quick=dict(cases=40000), thorough=dict(cases=400000, shards=16)),
    ],
    rule="texts of 1..6 input lines (single or doubled newline between them) of 0..15 words (length 1..width-indent+3, "
         "some starting with '-', the token 'nn' anywhere) x indent 0..12 x width indent+5..indent+40 x both first-line "
         "modes; exhaustive part: vocabulary {a,bbb,ccccc,-d,nn}, 1..5 words, every blank/newline separator pattern, "
         "indent {0,2}, width indent+{5,8}, both modes. Non-trivial = at least one wrap that is not caused by 'nn' and "
         "(a dash word, an 'nn' or an embedded newline); distinct by hash of the serialised case.",
    require_classes=dict(all=["wrap", "nn", "dash_line", "embedded_newline"]),
    assumptions=["words are separated by single blanks and are not the token 'nn' unless meant as the forced break",
                 "with first-line indentation off the first line is assumed to follow <indent> characters already printed "
                 "(that is what the class documents), so its width is counted as indent+length",
                 "indent+2 continuation lines are demanded only for list lines whose first word starts with '-' and fits on the first line"],
)

PROPS["C12"] = dict(
    units=[
        dict(harness="dbs_model", mode="ops", kind="enum", quick=dict(), thorough=dict()),
        dict(harness="dbs_model", mode="ops", quick=dict(cases=20000), thorough=dict(cases=200000, shards=16)),
    ],
    rule="exhaustive: every bitset of size 0..6 x every single operation (20 kinds) x every position/shift 0..size+3 x "
         "every second operand of size 0..6; generated: initial bitsets of size 0..200 (boundary sizes 63/64/65/128 "
         "weighted) x sequences of 1..30 operations with boundary-biased positions (size-1, size, size+1, 63, 64) and "
         "operands of equal and different size. After every operation all observers, documented throws, equality and six "
         "iteration forms are compared with a std::vector<bool> reference. Non-trivial = the sequence addresses a "
         "position >= the current size, shifts by >= the size, or combines bitsets of different sizes; distinct by hash "
         "of the serialised case.",
    require_classes=dict(all=["position_size_max", "position_huge", "growth", "shift_by_size_or_more", "binary_op_different_sizes", "const_access_beyond_size"]
                         + ["op." + n for n in ("set_all", "set_pos", "reset_all", "reset_pos", "flip_all", "flip_pos",
                                                 "idx_write", "idx_read", "resize", "and_assign", "or_assign",
                                                 "xor_assign", "shl", "shr", "assign_vector", "assign_bitset", "invert",
                                                 "test", "const_idx", "copy_roundtrip")]),
    assumptions=["growth factor is not specified: after addressing pos >= size the new size only has to exceed pos",
                 "size after reset() and after a left shift is the implementation's choice (must hold every set bit)",
                 "&= keeps the size of the left operand, |= and ^= grow to the larger operand (zero-extension semantics)",
                 "vector<bool> has no hardening in libstdc++ 12, so a one-bit overrun inside the last word is detected through "
                 "the model (missing growth), not by ASan"],
)

HOOK_COMMITS = []

_EXPL_OLD = (
        "Exploration is the honest level because the property quantifies over an unbounded input/history space.")

MANIFEST_TEXT = {}
MANIFEST_TEXT["C12"] = dict(
    text="Model-based testing: every operation is applied to the DynamicBitset and to a std::vector<bool> reference; all observers, "
         "documented throws, compound-vs-binary agreement and six iteration forms are compared after every step. All single "
         "operations on all bitsets up to size 6 are enumerated exhaustively; longer histories are generated. " + EXPL,
    design_ref="DESIGN.md section 4, C12",
    note="Trusts std::vector<bool> and the zero-extension reading of mixed-size operands; sizes where the docs leave them open are taken from the implementation under stated constraints.",
    technique="stateful model-based property testing (rapidcheck) + bounded exhaustive enumeration against a std::vector<bool> reference, under ASan/UBSan")
MANIFEST_TEXT["C13"] = dict(
    text="All 8/16-bit values in every tier and all 2^32 values of both 32-bit types in the thorough tier are enumerated "
         "(exhaustive for those sub-spaces); 64-bit types are covered by the full power-of-ten/power-of-two boundary set, "
         "a deterministic walk and rapidcheck-generated values. Oracle: an independent digit loop + group inserter, "
         "canary/ASan-guarded buffers, stringTo round trip. " + EXPL,
    design_ref="DESIGN.md section 4, C13",
    note="Trusts the 30-line reference converter in harness/int2str.cpp; 64-bit space is sampled, not enumerated.",
    technique="bounded exhaustive enumeration + property-based testing (rapidcheck) against an independent reference conversion")
# C17 through the usage printer (argument_desc.cpp is one of C17's anchors): the same generated usage cases as C18, judged
# by the layout predicate only (--opt layout=1); added after seeded change C17d
PROPS["C17"]["units"].append(dict(harness="argh", mode="usage", opts=dict(layout=1), quick=dict(cases=15000),
                                  thorough=dict(cases=60000, shards=8)))
PROPS["C17"]["require_classes"]["all"] += ["layout.judged", "layout.wrapped_description", "layout.longest_key_39",
                                           "layout.longest_key_40", "layout.longest_key_41"]
PROPS["C17"]["rule"] += (" Usage part: the usage cases of C18 (1..10 arguments, descriptions of 1..60 words, usage line length 60..239 or the "
                         "default 80, printed keys of 38..51 characters with half of them at 38..42 around the same-line threshold 40); "
                         "every indented line of the argument sections with two or more description words must fit into the line length.")
PROPS["C17"]["assumptions"] = list(PROPS["C17"]["assumptions"]) + [
    "usage part: only lines with >= 2 description words are judged (a single word may exceed the width, as the property says); the key of an entry line is not a description word"]

MANIFEST_TEXT["C17"] = dict(
    text="Generated and (for a tiny vocabulary) exhaustively enumerated texts are formatted and the output is judged by validity "
         "predicates - same word sequence, newline separation, indentation prefix, width unless single word - not by one expected layout; "
         "the same width predicate is applied to the argument descriptions of generated usage outputs (the usage printer is the class's caller). " + EXPL,
    design_ref="DESIGN.md section 4, C17",
    note="Trusts the word/line splitting of the harness; layout choices the property leaves open (how greedily lines are filled) are not judged.",
    technique="property-based testing (rapidcheck) + bounded exhaustive enumeration against validity predicates")
MANIFEST_TEXT["C19"] = dict(
    text="Exhaustive enumeration of all get/append sequences up to length 5 for buffer sizes 1..3 (all chunk scripts), plus "
         "rapidcheck-generated sequences for sizes up to 64, each compared byte for byte with the source / the appended stream. " + EXPL,
    design_ref="DESIGN.md section 4, C19",
    note="Trusts: the scripted source/sink in the harness, ASan+UBSan as monitors for out-of-buffer access (exact-size heap blocks for caller memory).",
    technique="property-based testing (rapidcheck) + bounded exhaustive enumeration against a byte-stream oracle, under ASan/UBSan")
