"""Fragment: C14 (log filters / routing), C16 (log message formatting)."""
from lib.props_common import EXPL

# minimal set of library sources that links: src/library/log/** (unreferenced members of the archive -
# log files, file names, standard arguments - are not pulled in by the linker) plus the two files of
# src/library/common that LogMsg and the exceptions need (probed: "/log/" alone leaves
# ExceptionBase::* and extractFuncname() undefined)
_LOG_LIB = ["/log/", "/common/exception_base.cpp", "/common/extract_funcname.cpp"]

HARNESSES = {
    "log_filter": dict(cfg="asan", sources=["harness/log_filter.cpp"], lib_only=_LOG_LIB,
                       kind_text="stateful model-based rapidcheck histories + bounded exhaustive enumeration against an "
                                 "independent filter/routing model, asan build"),
    "log_format": dict(cfg="asan", sources=["harness/log_format.cpp"], lib_only=_LOG_LIB,
                       kind_text="rapidcheck-generated format definitions / messages / attribute histories + bounded "
                                 "enumeration against an independent renderer, asan build"),
}

PROPS = {}

PROPS["C14"] = dict(
    units=[
        dict(harness="log_filter", mode="history", kind="enum", quick=dict(), thorough=dict()),
        dict(harness="log_filter", mode="history", quick=dict(cases=15000, size=100),
             thorough=dict(cases=75000, size=100, shards=16)),
    ],
    rule="history = interleaving of: create log (1..4, names differing in case/suffix, repeated names = lookup), add "
         "recording destination (1..3 per log), switch the global duplicate policy (ignore/exception/replace; also before "
         "any log exists), set a filter on a log or a destination (max/min/exact level with each of the 7 levels, class list "
         "naming any non-empty subset of the 6 classes in any letter case, order, with repeated names and empty tokens; "
         "~1% invalid lists); revisits of the same owner+type are forced so that duplicates occur under every policy. "
         "After the history: for EVERY subset of the logs (incl. empty) x all 49 (level, class) pairs one message over every "
         "applicable route (Logging::log(ids), LOG(ids) stream macro, Logging::log(name), LOG_LEVEL(id), LOG_LEVEL(name)); "
         "deliveries compared as multisets with the model; processLevel()/discard_by_level() checked for every log, "
         "destination and level. Exhaustive part: one log with one destination x (every single filter setting: 3x7 level "
         "settings + all 63 class subsets, on the log or the destination) and (every ordered pair of settings from 21 level "
         "settings + 10 representative class subsets, on either owner, x the 3 policies x policy set before the log is "
         "created / between the two settings), each x 49 messages x all routes. Non-trivial = (two filter types on one "
         "owner or a duplicate setting) and at least two logs; distinct by hash of the serialised history.",
    require_classes=dict(all=["dup.ignore", "dup.replace", "dup.exception", "policy_switch", "subset.multi_log",
                              "classes.names_operator_action", "structure_created_after_policy_switch",
                              "precheck.discard", "precheck.process", "route.log_ids", "route.stream_macro",
                              "route.log_name", "route.level_macro", "log.found_by_name"]
                         + ["filter.%s.%s" % (t, o) for t in ("max", "min", "level", "classes") for o in ("log", "dest")]),
    assumptions=[
        "levels are ordered by their enumeration value (undefined < fatal < ... < fullDebug): 'maximum'/'minimum' level mean "
        "numerically <= / >=; a message or filter parameter may be LogLevel::undefined / LogClass::undefined",
        "class lists use exactly the names of logClass2text, separated by ',' without surrounding blanks; empty tokens are "
        "ignored (documented for common::Tokenizer); 'undefined' is not a class that can be named",
        "a filter object (log or destination) starts with the policy 'ignore' in force unless the policy was set before "
        "(documented default); each case starts by resetting the Logging singleton and the policy",
        "an invalid/empty class list is only judged where the documentation decides: with an existing class filter and policy "
        "'ignore' nothing changes, with 'exception' the call throws; after a rejected list under 'replace' (or a silently "
        "accepted invalid list) the class filter of that owner is unspecified - its deliveries are no longer compared, memory "
        "safety still is (ASan)",
        "log ids are only required to be non-zero and pairwise bit-disjoint; id sets are subsets of the existing logs",
        "pre-check: Filters::processLevel(l) == false must imply that the owner's own filters reject every message of level l; "
        "discard_by_level(id|name, l) == true must imply that no message of level l reaches any destination of that log; "
        "multi-id specs are outside getLog()'s documented domain; LOG_LEVEL is used with real levels only",
        "the stream macros drop messages with empty text (StreamLog destructor), so every message carries a text",
        "removeDestination() and user defined filters are not part of the generated histories",
    ],
)

PROPS["C16"] = dict(
    units=[
        dict(harness="log_format", mode="render", kind="enum", quick=dict(), thorough=dict()),
        dict(harness="log_format", mode="render", quick=dict(cases=20000, size=100),
             thorough=dict(cases=100000, size=100, shards=16)),
    ],
    rule="definition = optional constructor separator + 1..10 items from {constant text, date, time, date_time (40% with a "
         "custom format of 1..6 tokens from %Y %m %d %H %M %S %y %j %e %F %T %R %D %a %b %% and literals), time_ms, time_us, "
         "pid, thread_id, line_nbr, func_name, filename, level, log_class, error_nbr, text, attribute(name), separator(s), "
         "separator(nullptr)/setAutoSep()}, fields (constant texts included) with optional width 1..30 and left alignment in either stream order, built "
         "through the real Creator; history of 1..30 events from {Logging::addAttribute, Logging::removeAttribute(name), "
         "LOG_ATTRIBUTE in a real nested C++ scope, end of scope, log a message}; messages: every level/class, texts empty / "
         "words / tab / newline / longer than any width, error numbers incl. INT_MIN/INT_MAX, file names with and without "
         "path, timestamps 1970..2100 biased to day, year and leap-day boundaries and (half of them) within 18 hours of the previous message of the history; the process time zone is one of six fixed-offset POSIX zones (UTC0, CET-1, EST5, NZST-12, IST-5:30, MART9:30) chosen per case; own LogAttributes chain of 0..3 objects "
         "with add / add<int> / remove(name) / remove-last. Every logged message is rendered twice (LogDestStream with the "
         "Format installed, reached through Logging::log; a second Format called directly) and compared with the "
         "independent renderer. Exhaustive part: every field kind x width {0,3,24} x alignment x separator x stream order "
         "in two positions, and every ordered pair of field kinds with width/alignment/format on the first only (reset "
         "rule), each over 5 boundary messages with global, scoped and own attributes. Non-trivial = definition with >= 3 "
         "fields incl. >= 1 with a width and >= 1 date/time or attribute field, and >= 1 message logged; distinct by hash "
         "of the serialised case.",
    require_classes=dict(all=["attr.own_over_global", "attr.own", "attr.global", "attr.undefined", "own.chain", "scope.end",
                              "scope.nested", "scope.shadows_same_name", "global.add", "global.remove", "sep.inserted",
                              "width.left", "width.right", "width.followed_by_plain_field", "fmt.custom",
                              "fmt.before_other_field", "item.sep", "item.sep_off", "width.padded_constant", "width.padded_constant_followed_by_constant_or_separator", "tz.not_utc", "tz.same_utc_day_other_local_day",
                              "tz.other_utc_day_same_local_day"]
                         + ["item." + k for k in ("const", "date", "time", "time_ms", "time_us", "date_time", "pid", "thread_id",
                                                  "line_nbr", "func_name", "filename", "level", "log_class", "error_nbr",
                                                  "text", "attribute")]),
    assumptions=[
        "the time zone is set by the harness per case (TZ + tzset) from fixed-offset zones without daylight saving rules, so that the reference renderer needs no C library call (local = UTC + offset); C locale; timestamps are passed with LogMsg::setTimestamp(time_t) "
        "in 0..2100-12-31, never taken from the wall clock, so time_ms/time_us are always 000/000000 (LogMsg has no setter "
        "for a sub-second timestamp)",
        "custom date/time formats come from a fixed vocabulary of locale independent strftime directives and stay far below "
        "the 127 character limit of the renderer's buffer; an empty custom format is not generated",
        "width 1..30 and 'left' are only placed directly before a non-constant field (whether a constant text is a 'field' that "
        "consumes a pending width is not documented); width <= 0 is not generated; a formatString() before a field that is "
        "not date/time/date_time is ignored by that field and gone afterwards ('used by the next field')",
        "a constant text is never empty; constants count as fields for the automatic separator (in-tree test test_change_sep)",
        "file name and function name are compared with LogMsg::getFileName()/getFunctionName() (path stripping and "
        "__PRETTY_FUNCTION__ reduction belong to other modules); pid = getpid(), thread id = '0x' + hex of the message's id",
        "attribute values are never empty (an empty value is indistinguishable from 'not found' by documentation); the innermost "
        "LogAttributes object is the one passed to the message; Logging::removeAttribute(name) removes the newest attribute "
        "of that name (documented), a scoped attribute removes the attribute it added (ScopedAttribute documentation)",
        "ScopedAttribute objects are not copied; the Logging singleton is not reset while a scope is open",
    ],
)

HOOK_COMMITS = []

MANIFEST_TEXT = {}
MANIFEST_TEXT["C14"] = dict(
    text="Stateful model-based testing: generated histories of log/destination creation, duplicate-policy switches and filter "
         "settings are applied to the real Logging singleton and to an independent filter model; then one message per (log-id "
         "subset, level, class) is sent over every public route and the deliveries seen by recording destinations are compared "
         "with the model as multisets; the level pre-check is checked for 'never discards what the filters accept'. All single "
         "filter settings and all pairs of settings (x policy x policy position) on one log with one destination are enumerated "
         "exhaustively. " + EXPL,
    design_ref="DESIGN.md section 4, C14",
    note="Trusts the 30-line filter model and class-list parser in harness/log_filter.cpp and the reading of levels as ordered "
         "by enumeration value; behaviour after a rejected class list under 'replace' is monitored for memory safety only.",
    technique="stateful model-based property testing (rapidcheck) + bounded exhaustive enumeration against an independent "
              "filter/routing model, under ASan/UBSan")
MANIFEST_TEXT["C16"] = dict(
    text="Format definitions are generated as abstract item lists, built through the real formatting::Creator stream API and "
         "installed on a stream destination; generated messages and attribute histories (global, scoped via LOG_ATTRIBUTE in real "
         "nested scopes, message-own LogAttributes chains) are played and every rendered message is compared byte for byte with an "
         "independent renderer (own calendar arithmetic, own padding, own attribute stack model). Single-field and field-pair "
         "definitions are enumerated exhaustively. " + EXPL,
    design_ref="DESIGN.md section 4, C16",
    note="Trusts the reference renderer in harness/log_format.cpp (calendar, padding, attribute model) and the copied level/class "
         "name tables; sub-second time fields can only be observed as zero.",
    technique="property-based testing (rapidcheck) + bounded exhaustive enumeration against an independent reference renderer, "
              "under ASan/UBSan")
