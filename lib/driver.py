"""bin/check driver: build, replay tier, generation tier, replay confirmation, evidence."""
import hashlib
import json
import os
import shutil
import signal
import subprocess
import sys
import time
from concurrent.futures import ThreadPoolExecutor

from . import build
from .props import HARNESSES, PROPS

VERIF = build.VERIF
KF_FILE = os.path.join(VERIF, "known_findings.json")

SAN_ENV = {
    "ASAN_OPTIONS": "exitcode=77:detect_leaks=0:abort_on_error=0:allocator_may_return_null=1:"
                    "detect_stack_use_after_return=0:handle_abort=0:max_allocation_size_mb=2048:"
                    # memory: rapidcheck's deep and varied call stacks fill ASan's stack depot (0.85 GB after 400 000 cases with
                    # the default 30 frames, 16 shards of 1.5 M cases were killed by the OOM killer); 6 frames of allocation
                    # context and a 64 MB quarantine keep a shard below 1 GB. The stack of the faulting access is not shortened.
                    "malloc_context_size=6:quarantine_size_mb=64",
    "UBSAN_OPTIONS": "print_stacktrace=1:exitcode=77:halt_on_error=1",
    "TSAN_OPTIONS": "halt_on_error=1:exitcode=66:second_deadlock_stack=1:history_size=4",
    "TZ": "UTC",
}


def log(msg):
    print(msg, flush=True)


def derive_seed(seed, prop, unit, shard):
    h = hashlib.sha256(("%d/%s/%s/%d" % (seed, prop, unit, shard)).encode()).digest()
    v = int.from_bytes(h[:8], "little") >> 1
    return v or 1


def load_known():
    if not os.path.exists(KF_FILE):
        return []
    with open(KF_FILE) as f:
        return json.load(f).get("findings", [])


class Check:
    def __init__(self, prop, tier, seed):
        self.prop = prop
        self.tier = tier
        self.seed = seed
        self.spec = PROPS[prop]
        self.t0 = time.time()
        self.bins = {}
        self.violations = []       # (replay path, message)
        self.inconclusive = []
        self.notes = []
        self.known_lines = []
        self.unit_results = []
        self.rundir = os.path.join(build.BUILD, "run", "%s-%d" % (prop, os.getpid()))
        self.env = dict(os.environ)
        self.env.update(SAN_ENV)
        # per-case scratch files (argument files, log directories) live in shared memory when there is one:
        # nothing there is needed after the run, and it avoids file-system journal contention
        self.scratch = self.rundir
        if os.path.isdir("/dev/shm") and os.access("/dev/shm", os.W_OK):
            self.scratch = "/dev/shm/verif-run/%s-%d" % (prop, os.getpid())
        self.env["VERIF_SCRATCH"] = self.scratch

    # ------------------------------------------------------------------ build
    def build_all(self):
        names = sorted({u["harness"] for u in self.spec["units"]} |
                       {w.split(".")[0] for w in self.regress_files(names_only=True)})
        names = [n for n in names if n in HARNESSES]

        def one(n):
            h = HARNESSES[n]
            return n, build.build_harness(n, h.get("cfg", "asan"), h["sources"],
                                          use_lib=h.get("use_lib", True), lib_only=h.get("lib_only"),
                                          rapidcheck=h.get("rapidcheck", True),
                                          extra_flags=h.get("extra_flags", ()), libs=h.get("libs", ()))
        with ThreadPoolExecutor(4) as ex:
            for n, exe in ex.map(one, names):
                self.bins[n] = exe

    # ------------------------------------------------------------------ replay tier
    def regress_files(self, names_only=False):
        d = os.path.join(VERIF, "regress", self.prop)
        if not os.path.isdir(d):
            return []
        fs = sorted(f for f in os.listdir(d) if f.endswith(".case"))
        return fs if names_only else [os.path.join(d, f) for f in fs]

    def replay(self, path, kf=(), times=1, timeout=300):
        """Replays a case file named <harness>.<mode>.<anything>.case. Returns (failed, output)."""
        base = os.path.basename(path).split(".")
        harness, mode = base[0], base[1]
        exe = self.bins.get(harness)
        if exe is None:
            raise RuntimeError("no harness binary for " + path)
        if HARNESSES[harness].get("kind") == "fuzz":
            cmd = [exe, "-timeout=60", path]
        else:
            cmd = [exe, "--mode", mode, "--replay", path]
            if kf:
                cmd += ["--kf", ",".join(kf)]
            cmd += self.opt_args(self.unit_for(harness, mode))
        out = ""
        for _ in range(times):
            try:
                p = subprocess.run(cmd, stdout=subprocess.PIPE, stderr=subprocess.STDOUT, text=True,
                                   errors="replace", env=self.env, timeout=timeout, cwd=self.rundir)
                out = p.stdout
                if p.returncode == 2 and "REPLAY" not in out:
                    raise RuntimeError("replay infrastructure error for %s:\n%s" % (path, out[-2000:]))
                if p.returncode != 0:
                    return True, out
            except subprocess.TimeoutExpired:
                return True, "timeout after %ds (does not terminate)" % timeout
        return False, out

    def unit_for(self, harness, mode):
        for u in self.spec["units"]:
            if u["harness"] == harness and u.get("mode") == mode:
                return u
        return None

    def opt_args(self, unit):
        a = []
        if unit:
            for k, v in unit.get("opts", {}).items():
                a += ["--opt", "%s=%s" % (k, v)]
        return a

    def replay_tier(self):
        known = [k for k in load_known() if k["property"] == self.prop]
        open_kf = []
        open_witnesses = set()
        for k in known:
            w = os.path.join(VERIF, k["witness"])
            if k["status"] == "open":
                open_witnesses.add(os.path.abspath(w))
                failed, _ = self.replay(w, times=k.get("replay_times", 1))
                if failed:
                    line = "KNOWN-FINDING: property=%s %s" % (self.prop, k["what"])
                    log(line)
                    self.known_lines.append(line)
                    open_kf.append(k["signature"])
                else:
                    self.notes.append("witness of open finding %s no longer fails; its class is searched again"
                                      % k["id"])
        self.open_kf = open_kf
        n = 0
        for f in self.regress_files():
            if os.path.abspath(f) in open_witnesses:
                continue
            failed, out = self.replay(f, kf=open_kf, times=3 if ".mt" in f else 1)
            n += 1
            if failed:
                self.violations.append((f, "regression witness fails: " + last_line(out)))
        self.regress_count = n

    # ------------------------------------------------------------------ generation tier
    def run_units(self):
        jobs = []
        for ui, u in enumerate(self.spec["units"]):
            t = u.get(self.tier) or u.get("quick")
            if t is None or t.get("skip"):
                continue
            shards = t.get("shards", 1)
            for s in range(shards):
                jobs.append((ui, u, t, s))
        cap = self.spec.get("wall_cap", {}).get(self.tier, 3600 if self.tier == "thorough" else 900)

        def one(job):
            ui, u, t, s = job
            out = os.path.join(self.rundir, "u%d.s%d" % (ui, s))
            os.makedirs(out, exist_ok=True)
            exe = self.bins[u["harness"]]
            if u.get("kind") == "fuzz":
                return self.run_fuzz(job, out, exe, cap)
            cmd = [exe, "--mode", u["mode"], "--out", out]
            if u.get("kind", "gen") == "enum":
                cmd.append("--enum")
            else:
                cmd += ["--seed", str(derive_seed(self.seed, self.prop, "%s.%s" % (u["harness"], u["mode"]), s)),
                        "--cases", str(t["cases"]), "--size", str(t.get("size", 100))]
            opts = dict(u.get("opts", {}))
            opts.update(t.get("opts", {}))
            if t.get("shards", 1) > 1:
                opts["shard"] = s
                opts["shards"] = t["shards"]
            for k, v in opts.items():
                cmd += ["--opt", "%s=%s" % (k, v)]
            if self.open_kf:
                cmd += ["--kf", ",".join(self.open_kf)]
            t1 = time.time()
            remaining = max(30, cap - (t1 - self.t0))
            try:
                p = subprocess.run(cmd, stdout=subprocess.PIPE, stderr=subprocess.STDOUT, text=True,
                                   errors="replace", env=self.env, timeout=remaining, cwd=self.rundir)
                rc, output = p.returncode, p.stdout
            except subprocess.TimeoutExpired as e:
                rc, output = "timeout", (e.stdout or b"").decode(errors="replace") if isinstance(e.stdout, bytes) else (e.stdout or "")
            return dict(job=job, out=out, rc=rc, output=output, wall=time.time() - t1, cmd=cmd)

        with ThreadPoolExecutor(build.JOBS) as ex:
            results = list(ex.map(one, jobs))
        for r in results:
            self.handle_result(r)
        self.unit_results = results

    def run_fuzz(self, job, out, exe, cap):
        """One libFuzzer campaign: fresh corpus directory, fixed seed and run count, dictionary."""
        ui, u, t, s = job
        corpus = os.path.join(out, "corpus")
        os.makedirs(corpus, exist_ok=True)
        seed = derive_seed(self.seed, self.prop, "%s.%s" % (u["harness"], u["mode"]), s) % (2 ** 31 - 1) or 1
        cmd = [exe, "-seed=%d" % seed, "-runs=%d" % t["cases"], "-max_len=%d" % t.get("max_len", 512), "-timeout=25",
               "-rss_limit_mb=6000", "-artifact_prefix=" + out + "/", "-print_final_stats=1", "-verbosity=1"]
        if u.get("dict"):
            cmd.append("-dict=" + os.path.join(VERIF, u["dict"]))
        cmd.append(corpus)
        env = dict(self.env)
        env["VERIF_FUZZ_STATS"] = os.path.join(out, "fuzz_stats.json")
        env["ASAN_OPTIONS"] = env["ASAN_OPTIONS"].replace("exitcode=77", "exitcode=1")
        t1 = time.time()
        remaining = max(30, cap - (t1 - self.t0))
        try:
            p = subprocess.run(cmd, stdout=subprocess.PIPE, stderr=subprocess.STDOUT, text=True, errors="replace",
                               env=env, timeout=remaining, cwd=self.rundir)
            rc, output = p.returncode, p.stdout
        except subprocess.TimeoutExpired as e:
            rc, output = "timeout", (e.stdout or b"").decode(errors="replace") if isinstance(e.stdout, bytes) else (e.stdout or "")
        # translate into the common stats shape
        import re
        execs = 0
        m = re.search(r"stat::number_of_executed_units:\s*(\d+)", output)
        if m:
            execs = int(m.group(1))
        cov = re.findall(r"#\d+\s+\w+\s+cov: (\d+) ft: (\d+) corp: (\d+)", output)
        counters = {}
        try:
            counters = json.load(open(env["VERIF_FUZZ_STATS"]))
        except Exception:
            pass
        if not execs:
            execs = counters.get("execs", 0)
        corp_files = sorted(os.listdir(corpus))
        samples = []
        for f in corp_files[:3]:
            samples.append("hex:" + open(os.path.join(corpus, f), "rb").read()[:80].hex())
        classes = {"fuzz." + k: v for k, v in counters.items() if isinstance(v, int)}
        for i, v in enumerate(counters.get("menu", [])):
            classes["fuzz.menu_%d" % i] = v
        st = dict(mode=u["mode"], status="ok", evaluations=execs, nontrivial=counters.get("with_words", 0),
                  distinct_nontrivial=len(corp_files), counted_distinct=len(corp_files), exhaustive=False, classes=classes,
                  excluded_by_known_finding={}, samples=samples, fail_message="",
                  extra=dict(coverage_edges=int(cov[-1][0]) if cov else 0, features=int(cov[-1][1]) if cov else 0,
                             corpus_units=len(corp_files), seed=seed))
        artifacts = [f for f in os.listdir(out) if f.startswith(("crash-", "leak-", "timeout-"))]
        if rc == 0 or (rc != "timeout" and not artifacts and execs >= t["cases"]):
            rc = 0
        with open(os.path.join(out, "stats.json"), "w") as f:
            json.dump(st, f)
        if artifacts:
            # the saved input is the reproducible unit
            a = artifacts[0]
            shutil.copyfile(os.path.join(out, a), os.path.join(out, "crash.case"))
            st["fail_message"] = "libFuzzer artefact " + a
            rc = 1
        elif rc not in (0, "timeout"):
            st["fail_message"] = "fuzz target exited with %s without an artefact" % rc
            rc = 2
        return dict(job=job, out=out, rc=rc, output=output[-20000:], wall=time.time() - t1, cmd=cmd)

    def handle_result(self, r):
        ui, u, t, s = r["job"]
        label = "%s.%s" % (u["harness"], u["mode"])
        stats = None
        sp = os.path.join(r["out"], "stats.json")
        if os.path.exists(sp):
            try:
                stats = json.load(open(sp))
            except Exception:
                stats = None
        r["stats"] = stats
        rc = r["rc"]
        if rc == 0:
            if stats is None:
                raise RuntimeError("harness %s wrote no statistics\n%s" % (label, r["output"][-2000:]))
            return
        if rc == "timeout":
            self.inconclusive.append("%s shard %d hit the wall-clock cap after %d evaluations (inconclusive, not a violation; "
                                     "its partial statistics are counted)" % (label, s, (stats or {}).get("evaluations", 0)))
            return
        if rc == 2:
            raise RuntimeError("harness %s infrastructure error:\n%s" % (label, r["output"][-3000:]))
        # failure or crash: find the case file
        case = None
        for nm in ("fail.case", "crash.case"):
            p = os.path.join(r["out"], nm)
            if os.path.exists(p):
                case = p
                break
        if case is None:
            cur = os.path.join(r["out"], "current.bin")
            if os.path.exists(cur):
                raw = open(cur, "rb").read()
                n = int.from_bytes(raw[:8], "little") if len(raw) >= 8 else 0
                if 0 < n <= len(raw) - 8:
                    case = os.path.join(r["out"], "crash.case")
                    with open(case, "wb") as f:
                        f.write(raw[8:8 + n])
        if case is None:
            raise RuntimeError("harness %s failed (rc=%s) without a case file:\n%s" % (label, rc, r["output"][-3000:]))
        if os.path.basename(case) == "crash.case" and u.get("kind", "gen") == "gen" and not HARNESSES[u["harness"]].get("threaded") \
                and not getattr(self, "crash_shrunk", False):
            self.crash_shrunk = True   # one minimised crash per run is enough; further shards keep their unshrunk case
            # the process died (sanitizer abort, signal): run the same generation again with every case isolated in a
            # forked child, so that the crash becomes an ordinary failure that rapidcheck shrinks
            out2 = r["out"] + ".shrink"
            os.makedirs(out2, exist_ok=True)
            cmd2 = [a.replace(r["out"], out2) if a == r["out"] else a for a in r["cmd"]] + ["--opt", "isolate=1"]
            try:
                subprocess.run(cmd2, stdout=subprocess.DEVNULL, stderr=subprocess.DEVNULL, env=self.env, timeout=900, cwd=self.rundir)
                shrunk = os.path.join(out2, "fail.case")
                if os.path.exists(shrunk):
                    case = shrunk
                    self.notes.append("%s: crash case minimised by isolated re-run" % label)
            except subprocess.TimeoutExpired:
                pass
        data = open(case, "rb").read()
        fp = hashlib.sha256(data).hexdigest()[:12]
        dst_dir = os.path.join(VERIF, "replays", self.prop)
        os.makedirs(dst_dir, exist_ok=True)
        dst = os.path.join(dst_dir, "%s.%s.%s.case" % (u["harness"], u["mode"], fp))
        shutil.copyfile(case, dst)
        times = 3 if HARNESSES[u["harness"]].get("threaded") else 1
        failed, out = self.replay(dst, kf=self.open_kf, times=times)
        msg = (stats or {}).get("fail_message") or last_line(r["output"])
        if failed:
            self.violations.append((dst, msg + " | " + last_line(out)))
            with open(dst[:-5] + ".log", "w") as f:
                f.write(r["output"][-20000:] + "\n---- replay ----\n" + out[-20000:])
        elif not HARNESSES[u["harness"]].get("threaded") and u.get("kind", "gen") == "gen" and self.rerun_fails(r, msg):
            # the case alone passes, but the same generation run (a pure function of the seed) fails again at the same
            # point: the failure needs state that earlier cases of the process left behind. That is a violation whose
            # reproducible unit is the run, not the single case.
            run = dst[:-5] + ".genrun.json"
            with open(run, "w") as f:
                json.dump(dict(note="fails only as part of this generation run (state carried over from earlier cases of the "
                                    "same process); the last case is in 'case'", harness=u["harness"], mode=u["mode"],
                               argv=[a if a != r["out"] else "<outdir>" for a in r["cmd"][1:]], case=os.path.basename(dst),
                               message=msg), f, indent=1)
            self.violations.append((run, msg + " | only within the generation run, not from the single case"))
        else:
            self.inconclusive.append("%s: failure in generation did not reproduce from %s (%s)" % (label, dst, msg))

    def rerun_fails(self, r, msg):
        """Runs the generation command of a failed unit once more; True if it fails again with the same message."""
        out2 = r["out"] + ".again"
        os.makedirs(out2, exist_ok=True)
        cmd2 = [a.replace(r["out"], out2) if a == r["out"] else a for a in r["cmd"]]
        try:
            subprocess.run(cmd2, stdout=subprocess.DEVNULL, stderr=subprocess.DEVNULL, env=self.env, timeout=900, cwd=self.rundir)
        except subprocess.TimeoutExpired:
            return False
        try:
            st = json.load(open(os.path.join(out2, "stats.json")))
        except (OSError, ValueError):
            return False
        # the same failure = the same shrunk case (the message may contain a process or thread id)
        c1, c2 = os.path.join(r["out"], "fail.case"), os.path.join(out2, "fail.case")
        if not (st.get("fail_message") and os.path.exists(c2)):
            return False
        same_case = os.path.exists(c1) and open(c1, "rb").read() == open(c2, "rb").read()
        return same_case or st.get("fail_message") == msg

    # ------------------------------------------------------------------ evidence
    def merged(self):
        ev = 0
        classes = {}
        excluded = {}
        samples = []
        per_unit = []
        fpfiles = []
        exhaustive_units = []
        by_unit = {}
        for r in self.unit_results:
            ui, u, t, s = r["job"]
            st = r.get("stats")
            if not st:
                continue
            ev += st["evaluations"]
            for k, v in st["classes"].items():
                classes[k] = classes.get(k, 0) + v
            for k, v in st["excluded_by_known_finding"].items():
                excluded[k] = excluded.get(k, 0) + v
            label = "%s.%s%s" % (u["harness"], u["mode"], ".enum" if u.get("kind") == "enum" else "")
            if len([x for x in samples if x["unit"] == label]) < 3:
                for smp in st["samples"][:2]:
                    samples.append(dict(unit=label, case=smp))
            fp = os.path.join(r["out"], "fp.bin")
            if os.path.exists(fp):
                fpfiles.append((label, fp))
            b = by_unit.setdefault(label, dict(unit=label, kind=u.get("kind", "gen"), shards=0, evaluations=0,
                                               exhaustive=True, wall_s=0.0))
            b["shards"] += 1
            b["counted"] = b.get("counted", 0) + st.get("counted_distinct", 0)
            b["evaluations"] += st["evaluations"]
            b["exhaustive"] = b["exhaustive"] and st.get("exhaustive", False)
            b["wall_s"] = round(max(b["wall_s"], r["wall"]), 1)
            if "extra" in st:
                b.setdefault("extra", st["extra"])
        # distinct non-trivial: union of fingerprints per unit (salted by unit label so that
        # different engines never collide), merged across shards
        distinct = 0
        seen_total = set()
        for label in by_unit:
            seen = set()
            for l2, fp in fpfiles:
                if l2 != label:
                    continue
                data = open(fp, "rb").read()
                mv = memoryview(data).cast("Q") if len(data) % 8 == 0 and data else []
                seen.update(mv)
            by_unit[label]["distinct_nontrivial"] = len(seen) + by_unit[label].get("counted", 0)
            distinct += by_unit[label]["distinct_nontrivial"]
        return ev, distinct, classes, excluded, samples, list(by_unit.values())

    def write_evidence(self):
        ev, distinct, classes, excluded, samples, per_unit = self.merged()
        spec = self.spec
        req = spec.get("require_classes", {}).get(self.tier, spec.get("require_classes", {}).get("all", []))
        missing = [c for c in req if classes.get(c, 0) == 0]
        cov = dict(evaluations=ev, distinct_nontrivial=distinct, rule=spec["rule"], samples=samples,
                   exhaustive=bool(per_unit) and all(u["exhaustive"] for u in per_unit),
                   units=per_unit, classes=classes, excluded_by_known_finding=excluded,
                   regression_witnesses_replayed=self.regress_count,
                   known_findings_reported=self.known_lines, inconclusive=self.inconclusive,
                   notes=self.notes)
        e = dict(property_id=self.prop, tier=self.tier, seed=self.seed, level=spec.get("level", "exploration"),
                 coverage=cov, assumptions=spec.get("assumptions", []),
                 wall_s=round(time.time() - self.t0, 1), violations=len(self.violations))
        os.makedirs(os.path.join(VERIF, "evidence"), exist_ok=True)
        p = os.path.join(VERIF, "evidence", self.prop + ".json")
        with open(p + ".tmp", "w") as f:
            json.dump(e, f, indent=1)
            f.write("\n")
        os.rename(p + ".tmp", p)
        return missing

    # ------------------------------------------------------------------ main
    def main(self):
        os.makedirs(self.rundir, exist_ok=True)
        os.makedirs(self.scratch, exist_ok=True)
        try:
            self.build_all()
            log("[%s] built in %.1fs" % (self.prop, time.time() - self.t0))
            self.replay_tier()
            self.run_units()
            missing = self.write_evidence()
        finally:
            shutil.rmtree(self.rundir, ignore_errors=True)
            shutil.rmtree(self.scratch, ignore_errors=True)
            try:
                build.prune_cache()
            except Exception:
                pass
        for path, msg in self.violations:
            log("VIOLATION property=%s replay=%s" % (self.prop, path))
            log("  " + msg[:1500])
        for n in self.inconclusive:
            log("INCONCLUSIVE: " + n)
        if self.violations:
            return 1
        if missing and self.inconclusive:
            log("INCONCLUSIVE: some required case classes were not reached before the wall-clock cap: %s" % ", ".join(missing))
            return 0
        if missing:
            log("INFRASTRUCTURE: required case classes were never generated: %s" % ", ".join(missing))
            return 2
        log("[%s] %s tier held; %.1fs" % (self.prop, self.tier, time.time() - self.t0))
        return 0


def last_line(text):
    lines = [l for l in (text or "").strip().splitlines() if l.strip()]
    for l in reversed(lines):
        if "FAIL" in l or "ERROR" in l or "runtime error" in l or "WARNING: ThreadSanitizer" in l:
            return l.strip()[:1000]
    return lines[-1].strip()[:1000] if lines else ""


def replay_only(prop, path):
    c = Check(prop, "quick", 1)
    os.makedirs(c.rundir, exist_ok=True)
    os.makedirs(c.scratch, exist_ok=True)
    try:
        c.build_all()
        c.open_kf = []
        failed, out = c.replay(os.path.abspath(path))
    finally:
        shutil.rmtree(c.rundir, ignore_errors=True)
        shutil.rmtree(c.scratch, ignore_errors=True)
    sys.stdout.write(out)
    if failed:
        log("VIOLATION property=%s replay=%s" % (prop, path))
        return 1
    return 0


def main(argv):
    import argparse
    ap = argparse.ArgumentParser()
    ap.add_argument("prop")
    ap.add_argument("--tier", default=os.environ.get("VERIF_TIER", "quick"), choices=["quick", "thorough"])
    ap.add_argument("--replay")
    a = ap.parse_args(argv)
    if a.prop not in PROPS:
        log("unknown property " + a.prop)
        return 2
    try:
        seed = int(os.environ.get("VERIF_SEED", "1"))
    except ValueError:
        seed = 1
    try:
        if a.replay:
            return replay_only(a.prop, a.replay)
        return Check(a.prop, a.tier, seed).main()
    except build.BuildError as e:
        log("INFRASTRUCTURE: build failed\n" + str(e))
        return 2
    except RuntimeError as e:
        log("INFRASTRUCTURE: " + str(e))
        return 2
