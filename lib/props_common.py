EXPL = ("no counter-example among the generated cases; this is search, not proof - a passing run never shows absence. "
        "Exploration is the honest level because the property quantifies over an unbounded input/history space.")
