"""Per-property configuration of harnesses, units, budgets and evidence text."""

HARNESSES = {
    "buffers": dict(cfg="asan", sources=["harness/buffers.cpp"], use_lib=False),
}

PROPS = {}

PROPS["C19"] = dict(
    units=[
        dict(harness="buffers", mode="read", kind="enum", quick=dict(), thorough=dict()),
        dict(harness="buffers", mode="write", kind="enum", quick=dict(), thorough=dict()),
        dict(harness="buffers", mode="read", quick=dict(cases=60000, size=100),
             thorough=dict(cases=1500000, size=200, shards=8)),
        dict(harness="buffers", mode="write", quick=dict(cases=60000, size=100),
             thorough=dict(cases=1500000, size=200, shards=8)),
    ],
    rule="read: buffer size N in {1,2,3,4,5,8,16,64} x source of generated length x cyclic chunk script "
         "(1 byte / full request / generated size) x sequence of get lengths 0..N+3 incl. nullptr requests; "
         "write: N x sequence of append lengths 0..2N+3, flush, nullptr appends; exhaustive part: N<=3, all "
         "sequences up to length 5 (read: x 6 chunk scripts x 3 source slacks). Non-trivial = a get() that needs a "
         "refill while bytes are still buffered (compaction path), resp. an append() that forces a flush; distinct "
         "by hash of the serialised case.",
    require_classes=dict(all=["read.refill_with_buffered_data", "read.refused_too_long", "write.forced_flush",
                              "write.pass_through", "read.refill_multi_chunk"]),
    assumptions=["the source never returns 0 bytes while requested data is outstanding (ReadBuffer has no EOF protocol)",
                 "total requested bytes never exceed the source length"],
)

HOOK_COMMITS = []

EXPL = ("no counter-example among the generated cases; this is search, not proof - a passing run never shows absence. "
        "Exploration is the honest level because the property quantifies over an unbounded input/history space.")

MANIFEST_TEXT = {}
MANIFEST_TEXT["C19"] = dict(
    text="Exhaustive enumeration of all get/append sequences up to length 5 for buffer sizes 1..3 (all chunk scripts), plus "
         "rapidcheck-generated sequences for sizes up to 64, each compared byte for byte with the source / the appended stream. " + EXPL,
    design_ref="DESIGN.md section 4, C19",
    note="Trusts: the scripted source/sink in the harness, ASan+UBSan as monitors for out-of-buffer access (exact-size heap blocks for caller memory).",
    technique="property-based testing (rapidcheck) + bounded exhaustive enumeration against a byte-stream oracle, under ASan/UBSan")
