"""Per-property configuration of harnesses, units, budgets and evidence text.

The configuration lives in fragments under lib/props_d/*.py; each fragment may define
HARNESSES (name -> build spec), PROPS (property id -> units/rule/...), MANIFEST_TEXT
(property id -> level text/note/technique) and HOOK_COMMITS. They are merged here.
"""
import glob
import importlib.util
import os

HARNESSES = {}
PROPS = {}
MANIFEST_TEXT = {}
HOOK_COMMITS = []

_d = os.path.join(os.path.dirname(os.path.abspath(__file__)), "props_d")
for _f in sorted(glob.glob(os.path.join(_d, "*.py"))):
    _spec = importlib.util.spec_from_file_location("props_d_" + os.path.basename(_f)[:-3], _f)
    _m = importlib.util.module_from_spec(_spec)
    _spec.loader.exec_module(_m)
    for _k, _v in getattr(_m, "HARNESSES", {}).items():
        if _k in HARNESSES:
            raise RuntimeError("harness %s defined twice" % _k)
        HARNESSES[_k] = _v
    for _k, _v in getattr(_m, "PROPS", {}).items():
        if _k in PROPS:
            raise RuntimeError("property %s defined twice" % _k)
        PROPS[_k] = _v
    MANIFEST_TEXT.update(getattr(_m, "MANIFEST_TEXT", {}))
    HOOK_COMMITS += getattr(_m, "HOOK_COMMITS", [])
