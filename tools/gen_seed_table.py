#!/usr/bin/env python3
"""Prints the markdown table of seeded changes (DESIGN.md section 9) from seeded/*/meta.json."""
import json, os, glob
V = os.path.dirname(os.path.dirname(os.path.abspath(__file__)))
print("| seeded change | breaks | what it needs to manifest | pinned tests with it | demo (clean / patched) | caught by (quick tier, VERIF_SEED 1,2,3) |")
print("|---|---|---|---|---|---|")
for d in sorted(glob.glob(os.path.join(V, "seeded", "*"))):
    m = json.load(open(os.path.join(d, "meta.json")))
    v = m.get("verification_by_main_session", {})
    runs = {}
    for r in v.get("checks_run", []):
        p, s, rc = r.split(":")
        runs.setdefault(p, []).append(rc)
    caught = []
    for p, rcs in runs.items():
        n = sum(1 for x in rcs if x == "rc1")
        caught.append("%s %d/%d" % (p, n, len(rcs)))
    need = (m.get("needs_to_manifest") or m.get("what_it_needs_to_manifest") or "")
    if isinstance(need, list): need = "; ".join(need)
    need = need.replace("|", "\\|").replace("\n", " ")
    if len(need) > 260: need = need[:257] + "..."
    print("| `%s` | %s | %s | %s | %s / %s | %s |" % (os.path.basename(d), m.get("property", "?"), need, v.get("pinned_tests_with_patch", "?").strip(),
          v.get("demo_exit_on_clean_tree", "?"), v.get("demo_exit_with_patch", "?"), ", ".join(caught)))
