#!/bin/bash
# dev helper: tools/keys_try.sh <mode> <seed> <cases>   (VERIF_REPO default /repo)
cd /verif; export VERIF_REPO=${VERIF_REPO:-/repo}
K=$(python3 -c "
import sys; sys.path.insert(0,'/verif')
from lib import build
from lib.props import HARNESSES
h=HARNESSES['keys']
print(build.build_harness('keys', h['cfg'], h['sources'], lib_only=h['lib_only']))
" 2>&1 | tail -1)
[ -x "$K" ] || { echo "build failed: $K"; exit 1; }
rm -rf /tmp/k1; mkdir -p /tmp/k1; cd /tmp/k1
ASAN_OPTIONS=detect_leaks=0 $K --mode $1 --seed $2 --cases $3 --out /tmp/k1 2>&1 | grep -E "FAIL|OK, passed|Falsifiable|error" | head -5
[ -f /tmp/k1/fail.case ] && cat /tmp/k1/fail.case
