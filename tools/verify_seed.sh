#!/bin/bash
# usage: tools/verify_seed.sh <seed-dir containing patch.diff demo.sh meta.json> <name> <PROP> [more PROPs to run]
# 1. scratch worktree /tmp/vs: patch applies, builds, pinned tests pass, demo fails with / passes without the patch
# 2. applies the patch to /repo, runs the quick tier of the given checks, reverts
# 3. stores everything under /verif/seeded/<name>/
set -u
seed=$1; name=$2; shift 2; props="$@"
VS=/tmp/vs
if [ ! -d $VS ]; then
  git -C /repo worktree add --detach $VS HEAD -q || exit 2
  cmake -G Ninja -B $VS/_build -S $VS -DCMAKE_BUILD_TYPE=RelWithDebInfo >/dev/null || exit 2
fi
git -C $VS checkout -q --detach $(git -C /repo rev-parse HEAD) 2>/dev/null
git -C $VS checkout -- . ; git -C $VS clean -fdq -e _build
res=/tmp/vs-result.$$; : > $res
run_tests() {
  cmake --build $VS/_build -- -k0 >/dev/null 2>&1
  ctest --test-dir $VS/_build -j8 --timeout 900 2>&1 | grep -E "Test +#[0-9]+: .* Passed" | sed -E 's/.*: ([a-zA-Z0-9_]+) \.+.*/\1/' | sort > /tmp/vs-passed.$$
  python3 - /tmp/vs-passed.$$ <<'PY'
import json, sys
passed = set(open(sys.argv[1]).read().split())
want = [t.split("::")[0] for t in json.load(open("/root/.vp/BASELINE.json"))["stable_pass"]]
missing = [t for t in want if t not in passed]
print("%d/%d" % (len(want) - len(missing), len(want)), " ".join(missing))
PY
}
echo "== demo on clean tree"; bash $seed/demo.sh $VS >/tmp/vs-demo-clean.$$ 2>&1; dc=$?; echo "exit $dc"
git -C $VS apply $seed/patch.diff || { echo "PATCH DOES NOT APPLY"; exit 2; }
echo "== demo with patch"; bash $seed/demo.sh $VS >/tmp/vs-demo-patched.$$ 2>&1; dp=$?; echo "exit $dp"
echo "== pinned tests with patch"; tp=$(run_tests); echo "$tp"
git -C $VS checkout -- .
mkdir -p /verif/seeded/$name
cp $seed/patch.diff /verif/seeded/$name/patch.diff
cp $seed/demo.sh $seed/demo.cpp /verif/seeded/$name/ 2>/dev/null
for f in $seed/*; do case "$f" in *.diff|*/demo.sh|*/demo.cpp|*/meta.json) ;; *) [ -f "$f" ] && cp "$f" /verif/seeded/$name/ ;; esac; done
caught=""
cd /verif
git -C /repo diff --quiet || { echo "/repo dirty"; exit 2; }
git -C /repo apply $seed/patch.diff || { echo "cannot apply to /repo"; exit 2; }
for p in $props; do
  cp evidence/$p.json /tmp/evidence.$p.keep 2>/dev/null
  for s in 1 2 3; do
    out=$(VERIF_SEED=$s bin/check $p --tier quick 2>&1); rc=$?
    v=$(echo "$out" | grep -c "^VIOLATION")
    echo "== check $p seed $s: rc=$rc violations=$v $(echo "$out" | grep -A1 '^VIOLATION' | sed -n 2p | cut -c1-220)"
    caught="$caught $p:seed$s:rc$rc"
  done
  [ -f /tmp/evidence.$p.keep ] && mv /tmp/evidence.$p.keep evidence/$p.json
done
git -C /repo checkout -- .
python3 - "$seed/meta.json" "/verif/seeded/$name/meta.json" "$dc" "$dp" "$tp" "$caught" <<'PY'
import json, sys
try:
    m = json.load(open(sys.argv[1]))
except Exception as e:
    m = {"note": "sub-agent meta.json unreadable: %s" % e}
m["verification_by_main_session"] = {
    "demo_exit_on_clean_tree": int(sys.argv[3]), "demo_exit_with_patch": int(sys.argv[4]),
    "pinned_tests_with_patch": sys.argv[5], "checks_run": sys.argv[6].split(),
    "how": "tools/verify_seed.sh: scratch worktree /tmp/vs (patch applied, ninja -k0, ctest vs BASELINE stable list, demo.sh with and without patch); then git -C /repo apply, bin/check <ID> --tier quick with VERIF_SEED=1,2,3, git -C /repo checkout -- ."}
json.dump(m, open(sys.argv[2], "w"), indent=1)
PY
rm -f /tmp/vs-*.$$
