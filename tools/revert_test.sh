#!/bin/bash
# usage: tools/revert_test.sh <PROP> <fix-commit> <witness.case>...
# temporarily reverts a fix: commit in /repo's working tree, replays the witnesses (expected: fail), restores.
prop=$1; commit=$2; shift 2
cd /repo || exit 2
git diff --quiet || { echo "repo dirty"; exit 2; }
git show $commit | git apply -R || { echo "cannot revert"; exit 2; }
cd /verif
for w in "$@"; do
  bin/check $prop --replay $w 2>&1 | grep -E "REPLAY|VIOLATION|runtime error|ERROR: AddressSanitizer|ThreadSanitizer" | head -3
done
git -C /repo checkout -- .
