#!/usr/bin/env python3
"""fs_minimize.py <harness-binary> <case-file> <out-file>: greedy minimisation of a failing FixedString case (C10/C11,
format of harness/fs_common.hpp). Works for crashes too, which rapidcheck cannot shrink because the process dies:
drops operations one by one, then simplifies numbers/texts, keeping every step that still fails on --replay."""
import os, subprocess, sys, re
exe, src, dst = sys.argv[1:4]
env = dict(os.environ)
env["ASAN_OPTIONS"] = "exitcode=77:detect_leaks=0:abort_on_error=0:allocator_may_return_null=1:detect_stack_use_after_return=0:handle_abort=0:max_allocation_size_mb=2048"
env["UBSAN_OPTIONS"] = "print_stacktrace=1:exitcode=77:halt_on_error=1"
def fails(text):
    tmp = dst + ".try"
    open(tmp, "w").write(text)
    try:
        p = subprocess.run([exe, "--mode", "ops", "--replay", tmp], stdout=subprocess.PIPE, stderr=subprocess.STDOUT, env=env, timeout=120)
    except subprocess.TimeoutExpired:
        return False
    return p.returncode not in (0, 2)
def build(head, ops):
    h = head.split()
    # header: fs cap place "init" il "pinit" pl nops  -> rewrite nops (last token)
    m = re.match(r'^(.*\s)(\d+)\s*$', head)
    return m.group(1) + str(len(ops)) + "\n" + "".join(o + "\n" for o in ops)
lines = [l for l in open(src).read().split("\n") if l.strip()]
head, ops = lines[0], lines[1:]
assert fails(build(head, ops)), "case does not fail"
changed = True
while changed:
    changed = False
    i = len(ops) - 1
    while i >= 0:
        cand = ops[:i] + ops[i+1:]
        if fails(build(head, cand)):
            ops = cand; changed = True
        i -= 1
# simplify numbers / texts of remaining ops
def toks(l):
    return re.findall(r'"(?:[^"\\]|\\.)*"|\S+', l)
for _ in range(2):
    for i in range(len(ops)):
        t = toks(ops[i])
        for j in range(1, len(t)):
            for repl in (("z+0", "z+1", "z+2", "l+0") if j == 6 else ("z+0", "z+1", "l+0", "n+0")):
                if re.match(r'^[zlcrsn][+-]\d+$', t[j]) and t[j] != repl:
                    t2 = list(t); t2[j] = repl
                    cand = ops[:i] + [" ".join(t2)] + ops[i+1:]
                    if fails(build(head, cand)):
                        ops = cand; t = t2; break
            if t[j].startswith('"') and len(t[j]) > 3:
                for repl in ('"a"', '"ab"'):
                    t2 = list(t); t2[j] = repl
                    cand = ops[:i] + [" ".join(t2)] + ops[i+1:]
                    if fails(build(head, cand)):
                        ops = cand; t = t2; break
    # header simplification
    t = toks(head)
    for j, repls in ((2, ("0",)), (3, ('"a"',)), (4, ("z+0", "z+1", "z+2", "c+0")), (5, ('"b"',)), (6, ("z+0", "z+1"))):
        for repl in repls:
            if t[j] != repl:
                t2 = list(t); t2[j] = repl
                if fails(build(" ".join(t2), ops)):
                    t = t2; head = " ".join(t2); break
open(dst, "w").write(build(head, ops))
if os.path.exists(dst + ".try"): os.unlink(dst + ".try")
print(open(dst).read())
