#!/bin/bash
# Sensitivity regression: re-runs the quick tier against kept seeded changes after the generators were changed.
# usage: tools/recheck_seeds.sh [VERIF_SEED] <seeded-dir-name>...   (uses the scratch worktree /tmp/dev-repo, never /repo)
seed=$1; shift
W=/tmp/dev-repo
[ -d $W ] || git -C /repo worktree add --detach $W HEAD >/dev/null 2>&1
cd /verif
for name in "$@"; do
  d=/verif/seeded/$name
  props=$(python3 -c "
import json,sys
m=json.load(open('$d/meta.json'))
print(' '.join(sorted({c.split(':')[0] for c in m['verification_by_main_session']['checks_run'] if c.endswith('rc1')})))")
  git -C $W checkout -- . ; git -C $W apply $d/patch.diff || { echo "$name: patch does not apply"; continue; }
  for p in $props; do
    cp evidence/$p.json /tmp/evidence.$p.keep2 2>/dev/null
    out=$(VERIF_REPO=$W VERIF_SEED=$seed bin/check $p --tier quick 2>&1); rc=$?
    mv /tmp/evidence.$p.keep2 evidence/$p.json 2>/dev/null
    echo "$name $p seed=$seed rc=$rc $(echo "$out" | grep -c '^VIOLATION') violation line(s)"
  done
  git -C $W checkout -- .
done
