#!/bin/bash
# usage: tools/mut.sh <PROP> <file-relative-to-/repo> <sed-expression> [tier]
# applies a one-off mutation to /repo, runs the check, reverts. For sensitivity testing only.
set -u
prop=$1; file=$2; expr=$3; tier=${4:-quick}
cd /repo || exit 2
if ! git diff --quiet; then echo "repo dirty"; exit 2; fi
sed -i "$expr" "$file"
if git diff --quiet; then echo "MUTATION DID NOT APPLY"; exit 2; fi
git --no-pager diff | grep '^[+-]' | grep -v '^+++\|^---'
cd /verif
cp evidence/$prop.json /tmp/evidence.$prop.keep 2>/dev/null
VERIF_SEED=${VERIF_SEED:-1} bin/check $prop --tier $tier 2>&1 | tail -${MUT_TAIL:-6}
rc=${PIPESTATUS[0]}
git -C /repo checkout -- .
# evidence must only ever describe runs on the unchanged tree
[ -f /tmp/evidence.$prop.keep ] && mv /tmp/evidence.$prop.keep evidence/$prop.json
echo "check rc=$rc"
