#!/bin/bash
# dev helper: build argh and run one mode directly: tools/argh_try.sh <mode> <seed> <cases> [opts...]
cd /verif; export VERIF_REPO=${VERIF_REPO:-/tmp/dev-repo}
A=$(python3 -c "
import sys; sys.path.insert(0,'/verif')
from lib import build
from lib.props import HARNESSES
h=HARNESSES['argh']
print(build.build_harness('argh', h['cfg'], h['sources'], lib_only=h['lib_only']))
" 2>&1 | tail -1)
[ -x "$A" ] || { python3 -c "
import sys; sys.path.insert(0,'/verif')
from lib import build
from lib.props import HARNESSES
h=HARNESSES['argh']
print(build.build_harness('argh', h['cfg'], h['sources'], lib_only=h['lib_only']))
" 2>&1 | tail -40; exit 1; }
mode=$1; seed=$2; cases=$3; shift 3
rm -rf /tmp/a1; mkdir -p /tmp/a1; cd /tmp/a1
export ASAN_OPTIONS=exitcode=77:detect_leaks=0 UBSAN_OPTIONS=print_stacktrace=1 VERIF_SCRATCH=/tmp/a1
$A --mode $mode --seed $seed --cases $cases --out /tmp/a1 "$@" 2>&1 | grep -v "^$" | grep -E "FAIL|ERROR|runtime error|Falsifiable|OK, passed|Gave up" | head -5
python3 -c "
import json; s=json.load(open('/tmp/a1/stats.json')); print('evals',s['evaluations'],'nontrivial',s['distinct_nontrivial']); print({k:v for k,v in s['classes'].items() if not k.startswith('kind.')})"
[ -f /tmp/a1/fail.case ] && cat /tmp/a1/fail.case
