#!/usr/bin/env python3
"""Merges a known_findings.d/<x>.json fragment into known_findings.json, rewriting commit ids
(worktree sha -> sha after cherry-pick into /repo). usage: merge_kf.py fragment.json old=new old=new ..."""
import json, sys, os
V = os.path.dirname(os.path.dirname(os.path.abspath(__file__)))
frag = json.load(open(sys.argv[1]))
remap = dict(a.split("=") for a in sys.argv[2:])
main_p = os.path.join(V, "known_findings.json")
main = json.load(open(main_p))
have = {f["id"] for f in main["findings"]}
for f in frag["findings"]:
    if f["id"] in have:
        continue
    if "commit" in f:
        f["commit"] = remap.get(f["commit"], f["commit"])
    main["findings"].append(f)
for l in frag.get("fixed_log", []):
    for o, n in remap.items():
        l = l.replace(o, n)
    if l not in main["fixed_log"]:
        main["fixed_log"].append(l)
json.dump(main, open(main_p, "w"), indent=1)
print("merged", sys.argv[1])
