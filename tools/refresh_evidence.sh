#!/bin/bash
# runs the quick tier of every claimed check on the clean /repo tree and reports; evidence files are rewritten
cd /verif
git -C /repo diff --quiet || { echo "/repo is dirty"; exit 2; }
for p in $(cat lib/ready.txt); do
  s=$(date +%s)
  out=$(bin/check $p --tier quick 2>&1); rc=$?
  echo "$p rc=$rc $(( $(date +%s) - s ))s $(echo "$out" | grep -c VIOLATION) violations"
  [ $rc -ne 0 ] && echo "$out" | tail -5
done
