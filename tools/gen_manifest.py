#!/usr/bin/env python3
"""Writes /verif/MANIFEST.json from lib/props.py (claimed checks) + properties.jsonl (ids)."""
import json, os, sys
sys.path.insert(0, os.path.dirname(os.path.dirname(os.path.abspath(__file__))))
from lib.props import PROPS, HARNESSES, MANIFEST_TEXT, HOOK_COMMITS
V = os.path.dirname(os.path.dirname(os.path.abspath(__file__)))
ids = [json.loads(l)["id"] for l in open(os.path.join(V, "properties.jsonl"))]
checks, na = [], []
ready = set(open(os.path.join(V, "lib", "ready.txt")).read().split())
for i in ids:
    t = MANIFEST_TEXT.get(i)
    if i in PROPS and i in ready and t and not t.get("not_applicable"):
        checks.append(dict(
            property_id=i,
            quick_cmd="bin/check %s --tier quick" % i,
            thorough_cmd="bin/check %s --tier thorough" % i,
            evidence_file="evidence/%s.json" % i,
            replay_cmd_template="bin/check %s --replay {path}" % i,
            engine=", ".join(sorted({u["harness"] for u in PROPS[i]["units"]})),
            level_claimed=dict(category=PROPS[i].get("level", "exploration"), text=t["text"], design_ref=t["design_ref"]),
            level_note=t["note"],
            technique=t["technique"]))
    else:
        na.append(dict(property_id=i, reason=(t or {}).get("not_applicable", "check not built yet (work in progress; see DESIGN.md section 4 for the planned engine)")))
engines = []
for n, h in sorted(HARNESSES.items()):
    engines.append(dict(name=n, path=h["sources"][0], serves_properties=sorted(p for p in PROPS if any(u["harness"] == n for u in PROPS[p]["units"])),
                        kind_free_text=h.get("kind_text", "rapidcheck generators + explicit oracle, %s build" % h.get("cfg", "asan"))))
m = dict(version=1, setup_cmd="bin/setup",
         hooks=dict(guard="CELMA_VERIF", enable="every /verif build passes -DCELMA_VERIF (lib/build.py)",
                    baseline_off_cmd="bin/baseline", source_commits=HOOK_COMMITS, add_only=True),
         engines=engines, checks=checks, not_applicable=na,
         notes="All checks: bin/check <ID> --tier quick|thorough; VERIF_SEED selects the generator seed; replay files under replays/<ID>/, committed regression witnesses under regress/<ID>/, known findings in known_findings.json.")
json.dump(m, open(os.path.join(V, "MANIFEST.json"), "w"), indent=1)
print("claimed:", [c["property_id"] for c in checks])
