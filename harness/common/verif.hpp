// Common harness infrastructure: argument parsing, case (de)serialisation,
// statistics, rapidcheck driver loop, crash capture.
//
// A harness binary registers one or more "modes". Each mode has
//   * a rapidcheck generator for its Case type (all random choices live there),
//   * run(case) -> failure message ("" = property held on this case),
//   * a textual (de)serialisation of the case (the replay file).
// CLI:
//   H --mode M --seed N --cases N --size N --out DIR [--kf id,id] [--opt k=v ...]
//   H --mode M --replay FILE [--kf id,id]
//   H --mode M --enum --out DIR            (exhaustive part, if the mode has one)
// Exit codes: 0 held, 1 property violated (DIR/fail.case written),
//             2 infrastructure error, anything else = crash (DIR/crash.case).
#pragma once

#include <rapidcheck.h>

#include <algorithm>
#include <csignal>
#include <cstdint>
#include <cstdio>
#include <cstdlib>
#include <cstring>
#include <ctime>
#include <fstream>
#include <functional>
#include <iostream>
#include <map>
#include <memory>
#include <sstream>
#include <stdexcept>
#include <string>
#include <unordered_set>
#include <vector>
#include <fcntl.h>
#include <sys/mman.h>
#include <sys/wait.h>
#include <unistd.h>

#if defined(__SANITIZE_ADDRESS__) || defined(__SANITIZE_THREAD__)
#define VERIF_HAVE_SANITIZER 1
#endif
#if defined(__has_feature)
#if __has_feature(address_sanitizer) || __has_feature(thread_sanitizer)
#ifndef VERIF_HAVE_SANITIZER
#define VERIF_HAVE_SANITIZER 1
#endif
#endif
#endif
#ifdef VERIF_HAVE_SANITIZER
extern "C" void __sanitizer_set_death_callback(void (*callback)(void));
#endif

namespace verif {

// ---------------------------------------------------------------- hashing
inline uint64_t fnv1a(const void *p, size_t n, uint64_t h = 1469598103934665603ULL) {
  const unsigned char *c = static_cast<const unsigned char *>(p);
  for (size_t i = 0; i < n; ++i) { h ^= c[i]; h *= 1099511628211ULL; }
  return h;
}
inline uint64_t fnv1a(const std::string &s, uint64_t h = 1469598103934665603ULL) {
  return fnv1a(s.data(), s.size(), h);
}

// ---------------------------------------------------------------- case text format
// Whitespace separated tokens. Numbers in decimal, strings double-quoted with
// \\ \" and \xNN escapes, so that every byte sequence round-trips and the file
// stays readable.
class Writer {
public:
  Writer &u(uint64_t v) { sep(); mOut += std::to_string(v); return *this; }
  Writer &i(int64_t v) { sep(); mOut += std::to_string(v); return *this; }
  Writer &tag(const char *t) { sep(); mOut += t; return *this; }
  Writer &s(const std::string &v) {
    sep();
    mOut += '"';
    for (unsigned char c : v) {
      if (c == '\\') mOut += "\\\\";
      else if (c == '"') mOut += "\\\"";
      else if (c < 0x20 || c >= 0x7f) { char b[8]; snprintf(b, sizeof b, "\\x%02x", c); mOut += b; }
      else mOut += static_cast<char>(c);
    }
    mOut += '"';
    return *this;
  }
  Writer &nl() { mOut += '\n'; mFresh = true; return *this; }
  const std::string &str() const { return mOut; }
private:
  void sep() { if (!mFresh) mOut += ' '; mFresh = false; }
  std::string mOut;
  bool mFresh = true;
};

class Reader {
public:
  explicit Reader(std::string text) : mText(std::move(text)) {}
  bool eof() { skip(); return mPos >= mText.size(); }
  uint64_t u() { return std::stoull(word()); }
  int64_t i() { return std::stoll(word()); }
  std::string tag() { return word(); }
  std::string peek() { size_t p = mPos; std::string w = word(); mPos = p; return w; }
  std::string s() {
    skip();
    if (mPos >= mText.size() || mText[mPos] != '"') throw std::runtime_error("case file: string expected");
    ++mPos;
    std::string r;
    while (mPos < mText.size() && mText[mPos] != '"') {
      char c = mText[mPos++];
      if (c == '\\') {
        if (mPos >= mText.size()) break;
        char e = mText[mPos++];
        if (e == 'x') { r += static_cast<char>(std::stoi(mText.substr(mPos, 2), nullptr, 16)); mPos += 2; }
        else r += e;
      } else r += c;
    }
    if (mPos >= mText.size()) throw std::runtime_error("case file: unterminated string");
    ++mPos;
    return r;
  }
private:
  void skip() { while (mPos < mText.size() && isspace(static_cast<unsigned char>(mText[mPos]))) ++mPos; }
  std::string word() {
    skip();
    size_t b = mPos;
    while (mPos < mText.size() && !isspace(static_cast<unsigned char>(mText[mPos]))) ++mPos;
    if (b == mPos) throw std::runtime_error("case file: token expected");
    return mText.substr(b, mPos - b);
  }
  std::string mText;
  size_t mPos = 0;
};

// ---------------------------------------------------------------- statistics
struct Stats {
  uint64_t evaluations = 0;
  uint64_t nontrivial = 0;            // non-trivial cases incl. duplicates
  std::unordered_set<uint64_t> fingerprints;   // distinct non-trivial cases
  std::map<std::string, uint64_t> classes;
  std::map<std::string, uint64_t> excluded;     // skipped because of an open known finding
  std::vector<std::string> samples;             // some non-trivial cases, serialised
  bool exhaustive = false;
  bool partial = false;                         // set by an enumeration that covers only part of its space
  uint64_t countedDistinct = 0;                 // distinct non-trivial cases counted exactly by an enumeration
  std::string extraJson;                        // optional, harness specific object for the evidence
  uint64_t fpCap = 4000000;
  // per-case scratch
  bool caseNontrivial = false;
  bool frozen = false;                           // set while shrinking / replaying

  void cls(const std::string &name, uint64_t n = 1) { if (!frozen) classes[name] += n; }
  void excl(const std::string &name) { if (!frozen) excluded[name] += 1; }
  void markNontrivial() { caseNontrivial = true; }
};

inline Stats &stats() { static Stats s; return s; }

// open known findings passed with --kf; harnesses skip exactly those classes
inline std::unordered_set<std::string> &knownFindings() { static std::unordered_set<std::string> s; return s; }
inline bool kf(const char *id) { return knownFindings().count(id) != 0; }

inline std::map<std::string, std::string> &options() { static std::map<std::string, std::string> o; return o; }
inline long opt(const std::string &k, long dflt) {
  auto it = options().find(k);
  return it == options().end() ? dflt : std::stol(it->second);
}
inline std::string optStr(const std::string &k, const std::string &dflt) {
  auto it = options().find(k);
  return it == options().end() ? dflt : it->second;
}

inline std::string jsonEscape(const std::string &s) {
  std::string r;
  for (unsigned char c : s) {
    if (c == '"') r += "\\\"";
    else if (c == '\\') r += "\\\\";
    else if (c == '\n') r += "\\n";
    else if (c == '\t') r += "\\t";
    else if (c < 0x20 || c >= 0x7f) { char b[8]; snprintf(b, sizeof b, "\\u%04x", c); r += b; }
    else r += static_cast<char>(c);
  }
  return r;
}

struct RunState {
  std::string outDir;
  std::string mode;
  std::function<std::string()> currentCase;   // serialises the case under evaluation
  std::string failMessage;
  bool failed = false;
};
inline RunState &runState() { static RunState r; return r; }

inline void writeFile(const std::string &path, const std::string &content) {
  std::string tmp = path + ".tmp";
  { std::ofstream f(tmp, std::ios::binary); f << content; }
  rename(tmp.c_str(), path.c_str());
}

inline void flushStats(const char *status) {
  auto &rs = runState();
  if (rs.outDir.empty()) return;
  auto &st = stats();
  std::ostringstream o;
  o << "{\"mode\":\"" << jsonEscape(rs.mode) << "\",\"status\":\"" << status << "\",";
  o << "\"evaluations\":" << st.evaluations << ",\"nontrivial\":" << st.nontrivial
    << ",\"distinct_nontrivial\":" << (st.fingerprints.size() + st.countedDistinct)
    << ",\"counted_distinct\":" << st.countedDistinct
    << ",\"exhaustive\":" << (st.exhaustive ? "true" : "false") << ",";
  if (!st.extraJson.empty()) o << "\"extra\":" << st.extraJson << ",";
  o << "\"classes\":{";
  bool first = true;
  for (auto &c : st.classes) { o << (first ? "" : ",") << "\"" << jsonEscape(c.first) << "\":" << c.second; first = false; }
  o << "},\"excluded_by_known_finding\":{";
  first = true;
  for (auto &c : st.excluded) { o << (first ? "" : ",") << "\"" << jsonEscape(c.first) << "\":" << c.second; first = false; }
  o << "},\"samples\":[";
  first = true;
  for (auto &s : st.samples) { o << (first ? "" : ",") << "\"" << jsonEscape(s) << "\""; first = false; }
  o << "],\"fail_message\":\"" << jsonEscape(rs.failMessage) << "\"}";
  writeFile(rs.outDir + "/stats.json", o.str() + "\n");
  // fingerprints for cross-shard merging
  std::string fp;
  fp.reserve(st.fingerprints.size() * 8);
  for (uint64_t v : st.fingerprints) fp.append(reinterpret_cast<const char *>(&v), 8);
  writeFile(rs.outDir + "/fp.bin", fp);
}

inline void crashDump() {
  static bool done = false;
  if (done) return;
  done = true;
  auto &rs = runState();
  if (rs.outDir.empty()) return;
  if (rs.currentCase) {
    std::string c;
    try { c = rs.currentCase(); } catch (...) { c = "<unserialisable>"; }
    writeFile(rs.outDir + "/crash.case", c);
  }
  rs.failMessage = "crash (sanitizer report, assertion or signal) - see stderr";
  flushStats("crash");
}
inline void crashSignal(int sig) {
  crashDump();
  signal(sig, SIG_DFL);
  raise(sig);
}

// The case under evaluation is mirrored into a memory mapped file (<out>/current.bin: 8 byte
// length + text), so that it survives every kind of death (sanitizer abort, assert, SIGKILL).
struct CurrentCaseFile {
  char *map = nullptr;
  size_t cap = 0;
  int fd = -1;
  void open(const std::string &path, size_t capacity) {
    fd = ::open(path.c_str(), O_RDWR | O_CREAT | O_TRUNC, 0644);
    if (fd < 0) return;
    cap = capacity;
    if (ftruncate(fd, static_cast<off_t>(cap)) != 0) { ::close(fd); fd = -1; return; }
    void *m = mmap(nullptr, cap, PROT_READ | PROT_WRITE, MAP_SHARED, fd, 0);
    if (m == MAP_FAILED) { ::close(fd); fd = -1; return; }
    map = static_cast<char *>(m);
  }
  void store(const std::string &text) {
    if (!map) return;
    if (text.size() + 8 > cap) {
      size_t ncap = (text.size() + 8) * 2;
      munmap(map, cap);
      map = nullptr;
      if (ftruncate(fd, static_cast<off_t>(ncap)) != 0) return;
      void *m = mmap(nullptr, ncap, PROT_READ | PROT_WRITE, MAP_SHARED, fd, 0);
      if (m == MAP_FAILED) return;
      map = static_cast<char *>(m);
      cap = ncap;
    }
    uint64_t n = text.size();
    memcpy(map + 8, text.data(), text.size());
    memcpy(map, &n, 8);
  }
  void clear() { if (map) { uint64_t n = 0; memcpy(map, &n, 8); } }
};
inline CurrentCaseFile &currentCaseFile() { static CurrentCaseFile f; return f; }

// ---------------------------------------------------------------- mode registry
struct ModeBase {
  virtual ~ModeBase() = default;
  virtual int generate() = 0;
  virtual int replay(const std::string &text) = 0;
  virtual int enumerate() { std::cerr << "mode has no exhaustive part\n"; return 2; }
};

inline std::map<std::string, std::unique_ptr<ModeBase>> &registry() {
  static std::map<std::string, std::unique_ptr<ModeBase>> r;
  return r;
}

// Evaluate one case with all the bookkeeping. Returns failure message.
template <class Case>
std::string evalCase(const Case &c, const std::function<std::string(const Case &)> &run,
                     const std::function<std::string(const Case &)> &show) {
  auto &st = stats();
  auto &rs = runState();
  rs.currentCase = [&]() { return show(c); };
  st.caseNontrivial = false;
  if (!st.frozen) ++st.evaluations;
  std::string text = show(c);
  currentCaseFile().store(text);
  std::string msg;
  static const bool isolate = opt("isolate", 0) != 0;
  if (isolate) {
    // crash shrinking: the case runs in a forked child, so a sanitizer abort / signal becomes an ordinary failure
    // that rapidcheck can shrink. Only used by the driver to minimise a case that killed the process.
    int fds[2];
    if (pipe(fds) != 0) return "isolate: pipe failed";
    fflush(nullptr);
    pid_t pid = fork();
    if (pid == 0) {
      close(fds[0]);
      int devnull = open("/dev/null", O_WRONLY);
      if (devnull >= 0) { dup2(devnull, 2); }
      std::string m = run(c);
      if (!m.empty()) { ssize_t ignored = write(fds[1], m.data(), m.size()); (void)ignored; }
      _exit(m.empty() ? 0 : 1);
    }
    close(fds[1]);
    char buf[4096];
    ssize_t n;
    while ((n = read(fds[0], buf, sizeof buf)) > 0) msg.append(buf, static_cast<size_t>(n));
    close(fds[0]);
    int status = 0;
    waitpid(pid, &status, 0);
    if (WIFSIGNALED(status)) msg = "crash: process killed by signal " + std::to_string(WTERMSIG(status));
    else if (WIFEXITED(status) && WEXITSTATUS(status) != 0 && msg.empty()) msg = "crash: sanitizer report or abnormal exit (code " + std::to_string(WEXITSTATUS(status)) + ")";
  } else {
    msg = run(c);
  }
  currentCaseFile().clear();
  // partial statistics survive a wall-clock kill (book-keeping only, never part of a verdict)
  if (!st.frozen && (st.evaluations & 0x3f) == 0) {
    static time_t lastFlush = time(nullptr);
    time_t now = time(nullptr);
    if (now - lastFlush >= 20) { lastFlush = now; flushStats("partial"); }
  }
  if (!st.frozen && st.caseNontrivial) {
    ++st.nontrivial;
    if (st.fingerprints.size() < st.fpCap) {
      bool fresh = st.fingerprints.insert(fnv1a(text)).second;
      if (fresh && st.samples.size() < 6 && (st.fingerprints.size() % 97 == 1 || st.samples.size() < 2))
        st.samples.push_back(text.size() > 1500 ? text.substr(0, 1500) + "..." : text);
    }
  }
  rs.currentCase = nullptr;
  return msg;
}

template <class Case>
struct Mode : ModeBase {
  std::string name;
  std::function<rc::Gen<Case>()> gen;
  std::function<std::string(const Case &)> run;
  std::function<std::string(const Case &)> show;
  std::function<Case(const std::string &)> parse;
  // optional exhaustive enumeration: calls the callback for every case, callback returns false to stop
  std::function<void(const std::function<bool(const Case &)> &)> enumerator;

  int fail(const Case &c, const std::string &msg) {
    auto &rs = runState();
    rs.failed = true;
    rs.failMessage = msg;
    if (!rs.outDir.empty()) writeFile(rs.outDir + "/fail.case", show(c));
    return 1;
  }

  int generate() override {
    auto g = gen();
    bool ok = rc::check(name, [&]() {
      Case c = *g;
      std::string msg = evalCase<Case>(c, run, show);
      if (!msg.empty()) {
        stats().frozen = true;   // everything after the first failure is shrinking
        fail(c, msg);
        RC_FAIL(msg);
      }
    });
    if (!ok && !runState().failed) {
      // rapidcheck gave up (e.g. too many discards) -> infrastructure problem, not a verdict
      flushStats("gave_up");
      return 2;
    }
    flushStats(ok ? "ok" : "fail");
    if (!ok) std::cout << "FAIL mode=" << name << " msg=" << runState().failMessage << "\n";
    return ok ? 0 : 1;
  }

  // optional: enumeration that does its own bookkeeping (huge spaces); returns 0/1, calls fail() itself
  std::function<int(Mode<Case> &)> customEnum;

  int enumerate() override {
    if (customEnum) {
      int r = customEnum(*this);
      if (r == 0 && !stats().partial) stats().exhaustive = true;
      flushStats(r == 0 ? "ok" : "fail");
      if (r) std::cout << "FAIL mode=" << name << " msg=" << runState().failMessage << "\n";
      return r;
    }
    if (!enumerator) return ModeBase::enumerate();
    int rcode = 0;
    enumerator([&](const Case &c) {
      std::string msg = evalCase<Case>(c, run, show);
      if (!msg.empty()) { fail(c, msg); rcode = 1; return false; }
      return true;
    });
    if (rcode == 0) stats().exhaustive = true;
    flushStats(rcode == 0 ? "ok" : "fail");
    if (rcode) std::cout << "FAIL mode=" << name << " msg=" << runState().failMessage << "\n";
    return rcode;
  }

  int replay(const std::string &text) override {
    Case c;
    try { c = parse(text); } catch (const std::exception &e) {
      std::cerr << "cannot parse case: " << e.what() << "\n";
      return 2;
    }
    stats().frozen = true;
    std::string msg = evalCase<Case>(c, run, show);
    if (msg.empty()) { std::cout << "REPLAY-PASS mode=" << name << "\n"; return 0; }
    std::cout << "REPLAY-FAIL mode=" << name << " msg=" << msg << "\n";
    return 1;
  }
};

template <class Case>
Mode<Case> &addMode(const std::string &name) {
  auto m = std::make_unique<Mode<Case>>();
  m->name = name;
  Mode<Case> &ref = *m;
  registry()[name] = std::move(m);
  return ref;
}

inline std::string readFile(const std::string &p) {
  std::ifstream f(p, std::ios::binary);
  if (!f) throw std::runtime_error("cannot read " + p);
  std::ostringstream o; o << f.rdbuf();
  return o.str();
}

inline int harnessMain(int argc, char **argv) {
  std::string mode, replayFile, out, seed = "1", cases = "100", size = "100";
  bool doEnum = false;
  for (int i = 1; i < argc; ++i) {
    std::string a = argv[i];
    auto next = [&]() -> std::string { if (i + 1 >= argc) { std::cerr << "missing value for " << a << "\n"; exit(2); } return argv[++i]; };
    if (a == "--mode") mode = next();
    else if (a == "--replay") replayFile = next();
    else if (a == "--out") out = next();
    else if (a == "--seed") seed = next();
    else if (a == "--cases") cases = next();
    else if (a == "--size") size = next();
    else if (a == "--enum") doEnum = true;
    else if (a == "--kf") {
      std::string l = next(), t;
      std::istringstream is(l);
      while (std::getline(is, t, ',')) if (!t.empty()) knownFindings().insert(t);
    } else if (a == "--opt") {
      std::string kv = next();
      auto p = kv.find('=');
      options()[kv.substr(0, p)] = p == std::string::npos ? "1" : kv.substr(p + 1);
    } else if (a == "--list") {
      for (auto &m : registry()) std::cout << m.first << "\n";
      return 0;
    } else { std::cerr << "unknown option " << a << "\n"; return 2; }
  }
  if (mode.empty() && registry().size() == 1) mode = registry().begin()->first;
  auto it = registry().find(mode);
  if (it == registry().end()) { std::cerr << "unknown mode '" << mode << "'\n"; return 2; }
  auto &rs = runState();
  rs.mode = mode;
  rs.outDir = out;
#ifdef VERIF_HAVE_SANITIZER
  __sanitizer_set_death_callback(crashDump);
#endif
  signal(SIGABRT, crashSignal);
  signal(SIGFPE, crashSignal);
  signal(SIGILL, crashSignal);
#ifndef VERIF_HAVE_SANITIZER
  signal(SIGSEGV, crashSignal);
  signal(SIGBUS, crashSignal);
#endif
  if (!replayFile.empty()) {
    std::string text;
    try { text = readFile(replayFile); } catch (const std::exception &e) { std::cerr << e.what() << "\n"; return 2; }
    return it->second->replay(text);
  }
  if (!out.empty()) currentCaseFile().open(out + "/current.bin", 1 << 16);
  if (doEnum) return it->second->enumerate();
  std::string params = "seed=" + seed + " max_success=" + cases + " max_size=" + size +
                       " max_discard_ratio=20 noshrink=0";
  setenv("RC_PARAMS", params.c_str(), 1);
  return it->second->generate();
}

// generator helper: inRange that does not collapse at small sizes
template <class T>
rc::Gen<T> range(T lo, T hiInclusive) {
  return rc::gen::resize(1000, rc::gen::inRange<T>(lo, static_cast<T>(hiInclusive + 1)));
}

template <class T>
rc::Gen<T> just(T v) { return rc::gen::just<T>(std::move(v)); }

}  // namespace verif
