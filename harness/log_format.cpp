// C16 - every delivered log message is rendered exactly as its format definition says.
//
// An abstract format definition (sequence of items: constant text, the 15 field kinds with optional
// width / left alignment / custom date format, separator changes) is generated, built through the
// real formatting::Creator stream API and installed as formatting::Format on a LogDestStream.
// A generated history of attribute events (global add/remove, nested scoped attributes through the
// LOG_ATTRIBUTE macro in real C++ scopes, messages with their own LogAttributes chain) is played;
// for every message the text the stream received is compared with an independent renderer that
// works from the abstract definition, the message values and a model of the attribute stacks.
#include "common/verif.hpp"

#include "celma/log/detail/log.hpp"
#include "celma/log/detail/log_dest_stream.hpp"
#include "celma/log/detail/log_msg.hpp"
#include "celma/log/formatting/creator.hpp"
#include "celma/log/formatting/format.hpp"
#include "celma/log/log_attributes.hpp"
#include "celma/log/log_macros.hpp"
#include "celma/log/logging.hpp"

#include <climits>

using namespace verif;
namespace cl = celma::log;
namespace clf = celma::log::formatting;

namespace {

const char *const kFindingScopeEnd = "C16-scope-end-removes-newest-same-name";

// ------------------------------------------------------------------ abstract definition
enum Kind {
  K_CONST, K_DATE, K_TIME, K_TIME_MS, K_TIME_US, K_DATETIME, K_PID, K_TID, K_LINE, K_FUNC, K_FILE,
  K_LEVEL, K_CLASS, K_ERRNR, K_TEXT, K_ATTR, K_SEP, K_SEP_OFF, K_KINDS
};
const char *const kKindNames[K_KINDS] = {"const", "date", "time", "time_ms", "time_us", "date_time", "pid", "thread_id",
                                         "line_nbr", "func_name", "filename", "level", "log_class", "error_nbr", "text",
                                         "attribute", "sep", "sep_off"};
inline bool isField(int k) { return k != K_SEP && k != K_SEP_OFF; }
inline bool isDateTime(int k) { return k == K_DATE || k == K_TIME || k == K_DATETIME; }

struct Item {
  int kind = K_TEXT;
  std::string s;            // constant text / attribute name / new separator
  int width = 0;            // 0 = none
  bool left = false;
  bool widthFirst = true;   // order of the width and the 'left' manipulator in the stream expression
  std::string fmt;          // custom format string ("" = none), given with formatString() before the field
  bool viaMethod = false;   // separator changes: Creator::setAutoSep() instead of the separator() manipulator
};
struct Def {
  bool ctorSep = false;
  std::string sep;
  std::vector<Item> items;
};

// ------------------------------------------------------------------ events
enum EvKind { E_GADD, E_GREM, E_OPEN, E_CLOSE, E_LOG, E_KINDS };
const char *const kEvNames[E_KINDS] = {"gadd", "grem", "open", "close", "log"};
enum OwnKind { O_ADD, O_ADD_INT, O_REMOVE_NAME, O_REMOVE_LAST, O_KINDS };
const char *const kOwnNames[O_KINDS] = {"add", "add_int", "remove", "remove_last"};

struct OwnOp {
  int obj = 0;   // which object of the chain (0 = outermost), modulo chain length
  int kind = O_ADD;
  std::string name, value;   // for add_int the value is a decimal number
};
struct Msg {
  int level = 0, cls = 0, errnr = 0, line = 0;
  int64_t ts = 0;
  std::string file, func, text;
  int chain = 0;   // number of LogAttributes objects (0 = message has no own attributes)
  std::vector<OwnOp> own;
};
struct Event {
  int kind = E_LOG;
  std::string name, value;
  Msg msg;
};
struct Case {
  Def def;
  std::vector<Event> events;
  int tz = 0;   // index into kZones: the time zone of the process (date/time fields show local time)
};
// fixed-offset POSIX zones (no daylight saving rule), so that the model can compute local time without the C library:
// local time = UTC + offset
struct Zone { const char *posix; int offset; };
const Zone kZones[] = {{"UTC0", 0}, {"CET-1", 3600}, {"EST5", -5 * 3600}, {"NZST-12", 12 * 3600}, {"IST-5:30", 19800}, {"MART9:30", -34200}};
const int kZoneCount = 6;
int gTzOffset = 0;   // offset of the case under evaluation

// ------------------------------------------------------------------ independent renderer
const char *const kLevelText[7] = {"undefined", "Fatal Error", "Error", "Warning", "Info", "Debug", "Full Debug"};
const char *const kClassText[7] = {"undefined", "SysCall", "Data", "Communication", "Application", "Accounting", "Operator Action"};

struct Civil {
  long long year;
  int month, day, hour, min, sec, yday /*1..*/, wday /*0=Sunday*/;
};
// proleptic Gregorian calendar from seconds since 1970-01-01T00:00:00 (local seconds; slightly negative values occur west
// of Greenwich), no library calls
Civil civilFromTs(int64_t ts) {
  Civil c;
  int64_t days = ts / 86400, rem = ts % 86400;
  if (rem < 0) { rem += 86400; --days; }
  if (days < 0) {   // 1969
    c.hour = static_cast<int>(rem / 3600); c.min = static_cast<int>(rem % 3600 / 60); c.sec = static_cast<int>(rem % 60);
    c.wday = static_cast<int>(((days + 4) % 7 + 7) % 7);
    c.year = 1969; c.yday = 365 + static_cast<int>(days) + 1; c.month = 12; c.day = 31 + static_cast<int>(days) + 1;
    return c;
  }
  c.hour = static_cast<int>(rem / 3600); c.min = static_cast<int>(rem % 3600 / 60); c.sec = static_cast<int>(rem % 60);
  c.wday = static_cast<int>((days + 4) % 7);
  long long y = 1970;
  for (;;) {
    const bool leap = (y % 4 == 0 && y % 100 != 0) || y % 400 == 0;
    const int len = leap ? 366 : 365;
    if (days < len) break;
    days -= len; ++y;
  }
  c.year = y;
  c.yday = static_cast<int>(days) + 1;
  const bool leap = (y % 4 == 0 && y % 100 != 0) || y % 400 == 0;
  const int ml[12] = {31, leap ? 29 : 28, 31, 30, 31, 30, 31, 31, 30, 31, 30, 31};
  int m = 0;
  while (days >= ml[m]) { days -= ml[m]; ++m; }
  c.month = m + 1; c.day = static_cast<int>(days) + 1;
  return c;
}
std::string two(int v) { char b[8]; snprintf(b, sizeof b, "%02d", v); return b; }
std::string renderTime(const std::string &fmt, int64_t ts) {
  static const char *const wd[] = {"Sun", "Mon", "Tue", "Wed", "Thu", "Fri", "Sat"};
  static const char *const mn[] = {"Jan", "Feb", "Mar", "Apr", "May", "Jun", "Jul", "Aug", "Sep", "Oct", "Nov", "Dec"};
  const Civil c = civilFromTs(ts + gTzOffset);
  std::string o;
  for (size_t i = 0; i < fmt.size(); ++i) {
    if (fmt[i] != '%' || i + 1 >= fmt.size()) { o += fmt[i]; continue; }
    const char d = fmt[++i];
    switch (d) {
      case 'Y': o += std::to_string(c.year); break;
      case 'm': o += two(c.month); break;
      case 'd': o += two(c.day); break;
      case 'H': o += two(c.hour); break;
      case 'M': o += two(c.min); break;
      case 'S': o += two(c.sec); break;
      case 'y': o += two(static_cast<int>(c.year % 100)); break;
      case 'j': { char b[8]; snprintf(b, sizeof b, "%03d", c.yday); o += b; break; }
      case 'e': { char b[8]; snprintf(b, sizeof b, "%2d", c.day); o += b; break; }
      case 'F': o += std::to_string(c.year) + "-" + two(c.month) + "-" + two(c.day); break;
      case 'T': o += two(c.hour) + ":" + two(c.min) + ":" + two(c.sec); break;
      case 'R': o += two(c.hour) + ":" + two(c.min); break;
      case 'D': o += two(c.month) + "/" + two(c.day) + "/" + two(static_cast<int>(c.year % 100)); break;
      case 'a': o += wd[c.wday]; break;
      case 'b': o += mn[c.month - 1]; break;
      case '%': o += '%'; break;
      default: throw std::runtime_error(std::string("format directive outside the harness vocabulary: %") + d);
    }
  }
  return o;
}

struct AttrEntry {
  std::string name, value;
  long scope;   // -1: added with Logging::addAttribute(), else id of the scoped attribute
};
struct OwnModel {
  std::vector<std::vector<std::pair<std::string, std::string>>> objs;   // [0] = outermost
  std::string lookup(const std::string &n) const {
    for (size_t k = objs.size(); k-- > 0;)
      for (size_t i = objs[k].size(); i-- > 0;)
        if (objs[k][i].first == n) return objs[k][i].second;
    return "";
  }
};

std::string pad(const std::string &v, const Item &it) {
  if (it.width <= 0 || v.size() >= static_cast<size_t>(it.width)) return v;
  const std::string blanks(it.width - v.size(), ' ');
  return it.left ? v + blanks : blanks + v;
}

std::string renderExpected(const Def &def, const cl::detail::LogMsg &lm, const Msg &m, const OwnModel &own,
                           const std::vector<AttrEntry> &global) {
  std::string out, sep = def.ctorSep ? def.sep : "";
  size_t fields = 0;
  for (const Item &it : def.items) {
    if (it.kind == K_SEP) { sep = it.s; continue; }
    if (it.kind == K_SEP_OFF) { sep.clear(); continue; }
    std::string v;
    switch (it.kind) {
      case K_CONST: v = it.s; break;
      case K_DATE: v = renderTime(it.fmt.empty() ? "%Y-%m-%d" : it.fmt, m.ts); break;
      case K_TIME: v = renderTime(it.fmt.empty() ? "%H:%M:%S" : it.fmt, m.ts); break;
      case K_DATETIME: v = renderTime(it.fmt.empty() ? "%Y-%m-%d %H:%M:%S" : it.fmt, m.ts); break;
      case K_TIME_MS: v = "000"; break;      // the timestamp is given in whole seconds (setTimestamp(time_t))
      case K_TIME_US: v = "000000"; break;
      case K_PID: v = std::to_string(static_cast<long long>(getpid())); break;
      case K_TID: { char b[40]; snprintf(b, sizeof b, "0x%lx", static_cast<unsigned long>(lm.getThreadId())); v = b; break; }
      case K_LINE: { char b[24]; snprintf(b, sizeof b, "%d", m.line); v = b; break; }
      case K_FUNC: v = lm.getFunctionName(); break;   // "taken from the message"
      case K_FILE: v = lm.getFileName(); break;
      case K_LEVEL: v = kLevelText[m.level]; break;
      case K_CLASS: v = kClassText[m.cls]; break;
      case K_ERRNR: { char b[24]; snprintf(b, sizeof b, "%d", m.errnr); v = b; break; }
      case K_TEXT: v = m.text; break;
      case K_ATTR: {
        v = own.lookup(it.s);
        if (v.empty())
          for (size_t i = global.size(); i-- > 0;) if (global[i].name == it.s) { v = global[i].value; break; }
        break;
      }
    }
    if (fields > 0 && !sep.empty()) out += sep;
    out += pad(v, it);
    ++fields;
  }
  return out;
}

// ------------------------------------------------------------------ building the real definition
void buildDefinition(const Def &d, clf::Definition &def) {
  std::unique_ptr<clf::Creator> cp(d.ctorSep ? new clf::Creator(def, d.sep.c_str()) : new clf::Creator(def));
  clf::Creator &c = *cp;
  for (const Item &it : d.items) {
    if (it.kind == K_SEP) {
      const char *p = it.s.c_str();
      if (it.viaMethod) c.setAutoSep(p); else c << clf::separator(p);
      continue;
    }
    if (it.kind == K_SEP_OFF) {
      const char *p = nullptr;
      if (it.viaMethod) c.setAutoSep(); else c << clf::separator(p);
      continue;
    }
    if (it.widthFirst && it.width > 0) c << it.width;
    if (it.left) c << clf::left;
    if (!it.widthFirst && it.width > 0) c << it.width;
    if (!it.fmt.empty()) c << clf::formatString(it.fmt);
    switch (it.kind) {
      case K_CONST: c << it.s; break;
      case K_DATE: c << clf::date; break;
      case K_TIME: c << clf::time; break;
      case K_TIME_MS: c << clf::time_ms; break;
      case K_TIME_US: c << clf::time_us; break;
      case K_DATETIME: c << clf::date_time; break;
      case K_PID: c << clf::pid; break;
      case K_TID: c << clf::thread_id; break;
      case K_LINE: c << clf::line_nbr; break;
      case K_FUNC: c << clf::func_name; break;
      case K_FILE: c << clf::filename; break;
      case K_LEVEL: c << clf::level; break;
      case K_CLASS: c << clf::log_class; break;
      case K_ERRNR: c << clf::error_nbr; break;
      case K_TEXT: c << clf::text; break;
      case K_ATTR: c << clf::attribute(it.s); break;
    }
  }
}

// ------------------------------------------------------------------ playing the history
struct Ctx {
  const Case *c = nullptr;
  cl::id_t logId = 0;
  std::ostringstream *stream = nullptr;
  std::unique_ptr<clf::Format> direct;   // second Format object, called directly
  std::vector<AttrEntry> global;
  long nextScope = 0;
  std::string failure;
  bool stop = false;       // open known finding hit: the rest of the history is not judged
  size_t logs = 0;
  bool ownOverGlobal = false, scopeShadow = false, scopeEnded = false;
};

std::string quoted(const std::string &s) {
  Writer w;
  w.s(s);
  return w.str();
}

void doLog(Ctx &x, const Event &e, size_t ei) {
  auto &st = stats();
  const Msg &m = e.msg;
  cl::detail::LogMsg lm(m.file, m.func.c_str(), m.line);
  lm.setLevel(static_cast<cl::LogLevel>(m.level));
  lm.setClass(static_cast<cl::LogClass>(m.cls));
  lm.setErrorNumber(m.errnr);
  lm.setText(m.text);
  lm.setTimestamp(static_cast<time_t>(m.ts));
  // the message's own attributes: chain of LogAttributes objects, [0] is the outermost
  std::vector<std::unique_ptr<cl::LogAttributes>> chain;
  OwnModel own;
  for (int k = 0; k < m.chain; ++k) {
    chain.emplace_back(k == 0 ? new cl::LogAttributes() : new cl::LogAttributes(chain.back().get()));
    own.objs.emplace_back();
  }
  if (m.chain > 0) {
    for (const OwnOp &o : m.own) {
      const size_t k = static_cast<size_t>(o.obj) % chain.size();
      auto &mo = own.objs[k];
      switch (o.kind) {
        case O_ADD: chain[k]->addAttribute(o.name, o.value); mo.emplace_back(o.name, o.value); break;
        case O_ADD_INT: {
          const int v = atoi(o.value.c_str());
          chain[k]->addAttribute(o.name, v);
          char b[24]; snprintf(b, sizeof b, "%d", v);
          mo.emplace_back(o.name, b);
          break;
        }
        case O_REMOVE_NAME:
          chain[k]->removeAttribute(o.name);
          for (size_t i = mo.size(); i-- > 0;) if (mo[i].first == o.name) { mo.erase(mo.begin() + i); break; }
          break;
        default:
          static_cast<cl::detail::LogAttributesContainer &>(*chain[k]).removeAttribute();
          if (!mo.empty()) mo.pop_back();
          break;
      }
    }
    lm.setAttributes(*chain.back());
    if (chain.size() > 1) st.cls("own.chain");
  }
  const std::string expect = renderExpected(x.c->def, lm, m, own, x.global);
  // classification of what this message exercises
  for (const Item &it : x.c->def.items) {
    if (it.kind != K_ATTR) continue;
    const std::string o = own.lookup(it.s);
    bool g = false;
    for (auto &a : x.global) if (a.name == it.s) g = true;
    if (!o.empty() && g) { x.ownOverGlobal = true; st.cls("attr.own_over_global"); }
    else if (!o.empty()) st.cls("attr.own");
    else if (g) st.cls("attr.global");
    else st.cls("attr.undefined");
  }
  x.stream->str("");
  x.stream->clear();
  cl::Logging::instance().log(x.logId, lm);
  const std::string got = x.stream->str();
  ++x.logs;
  if (got != expect) {
    x.failure = "event #" + std::to_string(ei) + " (log): stream destination received " + quoted(got) + ", definition says " + quoted(expect);
    return;
  }
  std::ostringstream second;
  x.direct->formatMsg(second, lm);
  if (second.str() != expect)
    x.failure = "event #" + std::to_string(ei) + " (log): Format::formatMsg wrote " + quoted(second.str()) + ", definition says " + quoted(expect);
}

size_t play(Ctx &x, size_t pos, int depth, long myScope);

// one real C++ scope holding one LOG_ATTRIBUTE
size_t scoped(Ctx &x, size_t pos, int depth, const std::string &name, const std::string &value) {
  const long id = x.nextScope++;
  size_t next;
  {
    LOG_ATTRIBUTE(name, value);
    x.global.push_back({name, value, id});
    next = play(x, pos, depth + 1, id);
  }
  // the scope has ended: "the log attribute is removed again" (ScopedAttribute), i.e. the one it added
  auto &st = stats();
  long own = -1, newest = -1;
  for (size_t i = 0; i < x.global.size(); ++i) {
    if (x.global[i].scope == id) own = static_cast<long>(i);
    if (x.global[i].name == name) newest = static_cast<long>(i);
  }
  x.scopeEnded = true;
  if (own >= 0 && own == newest) {
    x.global.erase(x.global.begin() + own);
    st.cls("scope.end");
  } else {
    // a younger attribute with the same name was added globally inside the scope and is still
    // there, or the scope's attribute was already removed by name inside the scope
    st.cls("scope.end_not_newest");
    if (kf(kFindingScopeEnd)) {
      if (!x.stop) st.excl(kFindingScopeEnd);
      x.stop = true;
    }
    if (own >= 0) x.global.erase(x.global.begin() + own);
  }
  return next;
}

// plays events from pos; returns the position after the E_CLOSE that ended this level (or the end)
size_t play(Ctx &x, size_t pos, int depth, long /*myScope*/) {
  auto &st = stats();
  const auto &ev = x.c->events;
  while (pos < ev.size()) {
    if (!x.failure.empty() || x.stop) return ev.size();
    const Event &e = ev[pos];
    switch (e.kind) {
      case E_GADD:
        cl::Logging::instance().addAttribute(e.name, e.value);
        x.global.push_back({e.name, e.value, -1});
        st.cls("global.add");
        ++pos;
        break;
      case E_GREM: {
        cl::Logging::instance().removeAttribute(e.name);
        // documented: the attribute with that name that was added last is removed
        for (size_t i = x.global.size(); i-- > 0;) if (x.global[i].name == e.name) { x.global.erase(x.global.begin() + i); st.cls("global.remove"); break; }
        ++pos;
        break;
      }
      case E_OPEN: {
        for (auto &a : x.global) if (a.name == e.name) { x.scopeShadow = true; st.cls("scope.shadows_same_name"); break; }
        st.cls(depth > 0 ? "scope.nested" : "scope.open");
        if (depth >= 40) { ++pos; break; }
        pos = scoped(x, pos + 1, depth, e.name, e.value);
        break;
      }
      case E_CLOSE:
        ++pos;
        if (depth > 0) return pos;
        break;   // unbalanced close at top level: no meaning
      default:
        doLog(x, e, pos);
        ++pos;
        break;
    }
  }
  return pos;
}

std::string runCase(const Case &c) {
  auto &st = stats();
  setenv("TZ", kZones[c.tz].posix, 1);
  tzset();
  gTzOffset = kZones[c.tz].offset;
  if (c.tz) st.cls("tz.not_utc");
  {
    bool dateField = false;
    for (auto &it : c.def.items) if (it.kind == K_DATE || it.kind == K_DATETIME) dateField = true;
    const Msg *prev = nullptr;
    auto fl = [](int64_t v) { return v >= 0 ? v / 86400 : -((-v + 86399) / 86400); };
    for (auto &e : c.events) {
      if (e.kind != E_LOG) continue;
      if (prev && dateField && fl(prev->ts) == fl(e.msg.ts) && fl(prev->ts + gTzOffset) != fl(e.msg.ts + gTzOffset)) st.cls("tz.same_utc_day_other_local_day");
      if (prev && dateField && fl(prev->ts) != fl(e.msg.ts) && fl(prev->ts + gTzOffset) == fl(e.msg.ts + gTzOffset)) st.cls("tz.other_utc_day_same_local_day");
      prev = &e.msg;
    }
  }
  (void)cl::Logging::instance();
  cl::Logging::reset();
  clf::Definition def;
  try { buildDefinition(c.def, def); }
  catch (const std::exception &e) { return std::string("building the definition threw: ") + e.what(); }

  std::ostringstream oss;
  Ctx x;
  x.c = &c;
  x.stream = &oss;
  x.logId = cl::Logging::instance().findCreateLog("fmt");
  cl::detail::Log *logObj = cl::Logging::instance().getLog(x.logId);
  auto *dest = new cl::detail::LogDestStream(oss);
  logObj->addDestination("stream", dest);
  dest->setFormatter(new clf::Format(def));
  x.direct.reset(new clf::Format(def));

  // classification of the definition
  size_t fields = 0;
  bool hasWidth = false, hasTimeOrAttr = false, sepInEffect = c.def.ctorSep && !c.def.sep.empty();
  for (size_t i = 0; i < c.def.items.size(); ++i) {
    const Item &it = c.def.items[i];
    st.cls(std::string("item.") + kKindNames[it.kind]);
    if (!isField(it.kind)) { sepInEffect = it.kind == K_SEP && !it.s.empty(); continue; }
    if (fields > 0 && sepInEffect) st.cls("sep.inserted");
    ++fields;
    if (it.width > 0) { hasWidth = true; st.cls(it.left ? "width.left" : "width.right"); }
    if (it.width > 0 && i + 1 < c.def.items.size() && isField(c.def.items[i + 1].kind) && c.def.items[i + 1].width == 0)
      st.cls("width.followed_by_plain_field");
    if (it.width > 0 && it.kind == K_CONST) st.cls(static_cast<size_t>(it.width) > it.s.size() ? "width.padded_constant" : "width.on_constant_no_padding");
    if (it.width > 0 && static_cast<size_t>(it.width) > it.s.size() && it.kind == K_CONST && i + 1 < c.def.items.size() &&
        (c.def.items[i + 1].kind == K_CONST ? c.def.items[i + 1].width == 0 : (isField(c.def.items[i + 1].kind) && sepInEffect)))
      st.cls("width.padded_constant_followed_by_constant_or_separator");
    if (!it.fmt.empty()) st.cls(isDateTime(it.kind) ? "fmt.custom" : "fmt.before_other_field");
    if (isDateTime(it.kind) || it.kind == K_ATTR) hasTimeOrAttr = true;
  }

  try {
    play(x, 0, 0, -1);
  } catch (const std::exception &e) {
    if (x.failure.empty()) x.failure = std::string("exception: ") + e.what();
  }
  if (!x.failure.empty()) return x.failure;
  if (fields >= 3 && hasWidth && hasTimeOrAttr && x.logs > 0) st.markNontrivial();

  cl::Logging::reset();
  delete logObj;
  return "";
}

// ------------------------------------------------------------------ (de)serialisation
int lookup(const std::string &k, const char *const *names, int n, const char *what) {
  for (int i = 0; i < n; ++i) if (k == names[i]) return i;
  throw std::runtime_error(std::string("bad ") + what + " " + k);
}
std::string showCase(const Case &c) {
  Writer w;
  w.tag("logformat").nl();
  if (c.tz) w.tag("tz").u(static_cast<uint64_t>(c.tz)).nl();
  w.tag("def").u(c.def.ctorSep).s(c.def.sep).u(c.def.items.size()).nl();
  for (auto &it : c.def.items)
    w.tag("item").tag(kKindNames[it.kind]).s(it.s).u(it.width).u(it.left).u(it.widthFirst).s(it.fmt).u(it.viaMethod).nl();
  w.tag("events").u(c.events.size()).nl();
  for (auto &e : c.events) {
    w.tag(kEvNames[e.kind]);
    if (e.kind == E_GADD || e.kind == E_OPEN) w.s(e.name).s(e.value);
    else if (e.kind == E_GREM) w.s(e.name);
    else if (e.kind == E_LOG) {
      const Msg &m = e.msg;
      w.u(m.level).u(m.cls).i(m.errnr).i(m.line).i(m.ts).s(m.file).s(m.func).s(m.text).u(m.chain).u(m.own.size());
      for (auto &o : m.own) w.nl().tag("own").u(o.obj).tag(kOwnNames[o.kind]).s(o.name).s(o.value);
    }
    w.nl();
  }
  return w.str();
}
Case parseCase(const std::string &t) {
  Reader r(t);
  Case c;
  r.tag();
  if (r.peek() == "tz") { r.tag(); c.tz = static_cast<int>(r.u()); if (c.tz >= kZoneCount) throw std::runtime_error("bad zone"); }
  r.tag();
  c.def.ctorSep = r.u() != 0; c.def.sep = r.s();
  size_t n = r.u();
  for (size_t i = 0; i < n; ++i) {
    Item it;
    r.tag();
    it.kind = lookup(r.tag(), kKindNames, K_KINDS, "item kind");
    it.s = r.s(); it.width = static_cast<int>(r.u()); it.left = r.u() != 0; it.widthFirst = r.u() != 0;
    it.fmt = r.s(); it.viaMethod = r.u() != 0;
    c.def.items.push_back(it);
  }
  r.tag();
  n = r.u();
  for (size_t i = 0; i < n; ++i) {
    Event e;
    e.kind = lookup(r.tag(), kEvNames, E_KINDS, "event");
    if (e.kind == E_GADD || e.kind == E_OPEN) { e.name = r.s(); e.value = r.s(); }
    else if (e.kind == E_GREM) e.name = r.s();
    else if (e.kind == E_LOG) {
      Msg &m = e.msg;
      m.level = static_cast<int>(r.u()); m.cls = static_cast<int>(r.u());
      if (m.level > 6 || m.cls > 6) throw std::runtime_error("bad level/class");
      m.errnr = static_cast<int>(r.i()); m.line = static_cast<int>(r.i()); m.ts = r.i();
      if (m.ts < 0) throw std::runtime_error("negative timestamp");
      m.file = r.s(); m.func = r.s(); m.text = r.s(); m.chain = static_cast<int>(r.u());
      size_t k = r.u();
      for (size_t j = 0; j < k; ++j) {
        OwnOp o;
        r.tag();
        o.obj = static_cast<int>(r.u()); o.kind = lookup(r.tag(), kOwnNames, O_KINDS, "own op");
        o.name = r.s(); o.value = r.s();
        m.own.push_back(o);
      }
    }
    c.events.push_back(e);
  }
  return c;
}

// ------------------------------------------------------------------ generators
const char *const kAttrNames[] = {"user", "id", "a", "A", "session"};
const char *const kAttrValues[] = {"1", "x", "value one", "v2", "root", "long-attribute-value-0123456789", "42"};
const char *const kConstants[] = {"|", " ", ": ", "[", "]", " - ", "text", "=>", "%", "a b"};
const char *const kSeps[] = {"|", " ", ", ", " | ", ";", "::"};
const char *const kFmtTokens[] = {"%Y", "%m", "%d", "%H", "%M", "%S", "%y", "%j", "%e", "%F", "%T", "%R", "%D", "%a", "%b", "%%",
                                  "-", ":", "/", " ", "T", ".", "at ", "[", "]"};
const char *const kFiles[] = {"main.cpp", "src/lib/file.cpp", "/abs/path/to/x.hpp", "a.c", "dir.d/file", "../rel/y.cc"};
const char *const kFuncs[] = {"int main(int, char**)", "void ns::Class::method(int) const", "test_one", "run",
                              "static bool celma::log::detail::X::check(const std::string&)", "std::string f<T>() [with T = int]"};
const char *const kTexts[] = {"", "word", "two words", "a longer log message text with several words", "x|y|z", " lead and trail ",
                              "tab\there", "line\nbreak", "1234567890123456789012345678901234567890"};

template <class T, size_t N>
rc::Gen<std::string> pick(T (&arr)[N]) {
  return rc::gen::map(range<size_t>(0, N - 1), [&arr](size_t i) { return std::string(arr[i]); });
}
rc::Gen<std::string> genWord(size_t lo, size_t hi) {
  return rc::gen::exec([lo, hi]() {
    size_t n = *range<size_t>(lo, hi);
    std::string s;
    for (size_t i = 0; i < n; ++i) s += static_cast<char>(*rc::gen::weightedOneOf<int>({{8, range<int>('a', 'z')}, {2, range<int>('0', '9')}, {1, range<int>(' ', '~')}}));
    return s;
  });
}
rc::Gen<std::string> genAttrName() { return pick(kAttrNames); }
rc::Gen<std::string> genAttrValue() { return rc::gen::weightedOneOf<std::string>({{5, pick(kAttrValues)}, {2, genWord(1, 12)}}); }

rc::Gen<std::string> genTimeFormat() {
  return rc::gen::exec([]() {
    const size_t n = *range<size_t>(1, 6);
    std::string s;
    for (size_t i = 0; i < n; ++i) s += *pick(kFmtTokens);
    return s;
  });
}

rc::Gen<Item> genItem(bool sepAllowed) {
  return rc::gen::exec([sepAllowed]() {
    Item it;
    it.kind = *rc::gen::weightedElement<int>({{6, K_CONST}, {3, K_DATE}, {3, K_TIME}, {1, K_TIME_MS}, {1, K_TIME_US}, {3, K_DATETIME}, {2, K_PID},
                                              {1, K_TID}, {2, K_LINE}, {2, K_FUNC}, {2, K_FILE}, {3, K_LEVEL}, {3, K_CLASS}, {2, K_ERRNR},
                                              {4, K_TEXT}, {6, K_ATTR}, {sepAllowed ? 3 : 0, K_SEP}, {sepAllowed ? 2 : 0, K_SEP_OFF}});
    it.viaMethod = *range<int>(0, 3) == 0;
    if (it.kind == K_SEP) { it.s = *rc::gen::weightedOneOf<std::string>({{8, pick(kSeps)}, {1, just<std::string>("")}}); return it; }
    if (it.kind == K_SEP_OFF) return it;
    if (it.kind == K_CONST) {
      it.s = *rc::gen::weightedOneOf<std::string>({{5, pick(kConstants)}, {1, genWord(1, 8)}});
      // a constant text is a field like any other: width and alignment given in front of it apply to it
      if (*range<int>(0, 9) < 3) { it.width = *range<int>(1, 12); it.left = *rc::gen::arbitrary<bool>(); it.widthFirst = *rc::gen::arbitrary<bool>(); }
      return it;
    }
    if (it.kind == K_ATTR) it.s = *genAttrName();
    // width and alignment belong to the field that follows them
    if (*range<int>(0, 9) < 5) it.width = *rc::gen::weightedOneOf<int>({{2, range<int>(1, 4)}, {5, range<int>(5, 30)}});
    if (*range<int>(0, 9) < 4) it.left = true;
    it.widthFirst = *rc::gen::arbitrary<bool>();
    if (isDateTime(it.kind)) { if (*range<int>(0, 9) < 4) it.fmt = *genTimeFormat(); }
    else if (*range<int>(0, 19) == 0) it.fmt = *genTimeFormat();   // "can be used by the next field": ignored by other kinds, then gone
    return it;
  });
}

int64_t daysFromCivil(long long y, int m, int d) {
  int64_t days = 0;
  for (long long yy = 1970; yy < y; ++yy) days += ((yy % 4 == 0 && yy % 100 != 0) || yy % 400 == 0) ? 366 : 365;
  const bool leap = (y % 4 == 0 && y % 100 != 0) || y % 400 == 0;
  const int ml[12] = {31, leap ? 29 : 28, 31, 30, 31, 30, 31, 31, 30, 31, 30, 31};
  for (int i = 0; i < m - 1; ++i) days += ml[i];
  return days + d - 1;
}

rc::Gen<int64_t> genTimestamp() {
  return rc::gen::exec([]() -> int64_t {
    const int64_t maxTs = 4133980799LL;   // 2100-12-31T23:59:59Z
    switch (*rc::gen::weightedElement<int>({{4, 0}, {3, 1}, {2, 2}, {2, 3}, {1, 4}})) {
      case 0: return *range<int64_t>(0, maxTs);
      case 1: {   // around a day boundary: 23:59:59 -> 00:00:00
        int64_t day = *range<int64_t>(0, maxTs / 86400);
        int64_t t = day * 86400 + *range<int64_t>(-2, 1);
        return t < 0 ? 0 : t;
      }
      case 2: {   // around a year boundary
        long long y = *range<long long>(1971, 2100);
        return daysFromCivil(y, 1, 1) * 86400 + *range<int64_t>(-2, 1);
      }
      case 3: {   // end of February / 1st of March, leap and non-leap years incl. 2000 and 2100
        long long y = *rc::gen::weightedOneOf<long long>({{1, just<long long>(2000)}, {1, just<long long>(2100)}, {1, just<long long>(2024)}, {3, range<long long>(1970, 2100)}});
        return daysFromCivil(y, 3, 1) * 86400 + *range<int64_t>(-86401, 1);
      }
      default: return *rc::gen::elementOf(std::vector<int64_t>{0, 1, 59, 60, 3599, 3600, 86399, 86400, 951782400, 946684799, 946684800,
                                                              2147483647LL, 2147483648LL, 1700000000});
    }
  });
}

rc::Gen<Msg> genMsg() {
  return rc::gen::exec([]() {
    Msg m;
    m.level = *range<int>(0, 6);
    m.cls = *range<int>(0, 6);
    m.errnr = *rc::gen::weightedOneOf<int>({{3, just<int>(0)}, {3, range<int>(1, 200)}, {1, just<int>(-1)}, {1, just<int>(INT_MAX)},
                                            {1, just<int>(INT_MIN)}, {2, rc::gen::arbitrary<int>()}});
    m.line = *rc::gen::weightedOneOf<int>({{6, range<int>(1, 5000)}, {1, just<int>(0)}, {1, just<int>(INT_MAX)}, {1, range<int>(5000, 1000000)}});
    m.ts = *genTimestamp();
    m.file = *pick(kFiles);
    m.func = *pick(kFuncs);
    m.text = *rc::gen::weightedOneOf<std::string>({{6, pick(kTexts)}, {2, genWord(0, 30)}});
    m.chain = *rc::gen::weightedElement<int>({{4, 0}, {4, 1}, {2, 2}, {1, 3}});
    if (m.chain > 0) {
      const size_t n = *range<size_t>(0, 5);
      for (size_t i = 0; i < n; ++i) {
        OwnOp o;
        o.obj = *range<int>(0, m.chain - 1);
        o.kind = *rc::gen::weightedElement<int>({{8, O_ADD}, {1, O_ADD_INT}, {2, O_REMOVE_NAME}, {1, O_REMOVE_LAST}});
        o.name = *genAttrName();
        if (o.kind == O_ADD) o.value = *genAttrValue();
        if (o.kind == O_ADD_INT) o.value = std::to_string(*rc::gen::weightedOneOf<int>({{3, range<int>(-50, 1000)}, {1, rc::gen::arbitrary<int>()}}));
        m.own.push_back(o);
      }
    }
    return m;
  });
}

rc::Gen<Case> genCaseRaw() {
  return rc::gen::exec([]() {
    Case c;
    c.tz = *rc::gen::weightedElement<int>({{4, 0}, {2, 1}, {2, 2}, {2, 3}, {1, 4}, {1, 5}});
    // messages of one history are often close in time (same day, neighbouring days): the next timestamp is the previous
    // one moved by up to 18 hours
    int64_t lastTs = -1;
    auto follow = [&](Msg &m) {
      if (lastTs >= 0 && *range<int>(0, 9) < 5) {
        int64_t t = lastTs + *range<int64_t>(-36, 36) * 1800 + *range<int64_t>(-2, 2);
        if (t >= 0 && t <= 4133980799LL) m.ts = t;
      }
      lastTs = m.ts;
    };
    const int sepMode = *rc::gen::weightedElement<int>({{4, 0}, {4, 1}, {1, 2}});
    if (sepMode == 1) { c.def.ctorSep = true; c.def.sep = *pick(kSeps); }
    if (sepMode == 2) { c.def.ctorSep = true; c.def.sep = ""; }
    const size_t n = *range<size_t>(1, 10);
    const bool sepChanges = *range<int>(0, 2) == 0;
    for (size_t i = 0; i < n; ++i) c.def.items.push_back(*genItem(sepChanges));
    // attribute names actually used by the definition are preferred in the history
    std::vector<std::string> used;
    for (auto &it : c.def.items) if (it.kind == K_ATTR) used.push_back(it.s);
    auto name = [&]() -> std::string {
      if (!used.empty() && *range<int>(0, 9) < 8) return used[*range<size_t>(0, used.size() - 1)];
      return *genAttrName();
    };
    const size_t ne = *rc::gen::weightedOneOf<size_t>({{3, range<size_t>(1, 3)}, {6, range<size_t>(4, 14)}, {1, range<size_t>(15, 30)}});
    int depth = 0;
    for (size_t i = 0; i < ne; ++i) {
      Event e;
      e.kind = *rc::gen::weightedElement<int>({{3, E_GADD}, {2, E_GREM}, {4, E_OPEN}, {depth > 0 ? 4 : 0, E_CLOSE}, {7, E_LOG}});
      switch (e.kind) {
        case E_GADD: case E_OPEN: e.name = name(); e.value = *genAttrValue(); if (e.kind == E_OPEN) ++depth; break;
        case E_GREM: e.name = name(); break;
        case E_CLOSE: --depth; break;
        default: {
          e.msg = *genMsg();
          follow(e.msg);
          for (auto &o : e.msg.own) if (!used.empty() && *range<int>(0, 9) < 7) o.name = used[*range<size_t>(0, used.size() - 1)];
          break;
        }
      }
      c.events.push_back(e);
    }
    // messages after the scopes have ended show that the scoped attributes are gone
    while (depth > 0) {
      Event e;
      e.kind = E_CLOSE;
      c.events.push_back(e);
      --depth;
      if (*range<int>(0, 1) == 0) {
        Event l;
        l.kind = E_LOG;
        l.msg = *genMsg();
        follow(l.msg);
        c.events.push_back(l);
      }
    }
    if (*range<int>(0, 1) == 0) {
      Event l;
      l.kind = E_LOG;
      l.msg = *genMsg();
      follow(l.msg);
      c.events.push_back(l);
    }
    return c;
  });
}

// every list of items / events is a valid case, so shrinking drops blocks of events, then single
// events, then single definition items
rc::Seq<Case> shrinkCase(const Case &c) {
  std::vector<Case> out;
  const size_t n = c.events.size();
  for (size_t block = n / 2; block >= 1; block /= 2) {
    for (size_t start = 0; start + block <= n; start += block) {
      Case s;
      s.def = c.def;
      s.tz = c.tz;
      for (size_t i = 0; i < n; ++i) if (i < start || i >= start + block) s.events.push_back(c.events[i]);
      out.push_back(std::move(s));
    }
    if (block == 1) break;
  }
  if (c.tz) { Case s = c; s.tz = 0; out.push_back(std::move(s)); }
  for (size_t k = 0; k < c.def.items.size(); ++k) {
    Case s = c;
    s.def.items.erase(s.def.items.begin() + k);
    out.push_back(std::move(s));
  }
  for (size_t k = 0; k < c.events.size(); ++k) {
    if (c.events[k].kind != E_LOG || (c.events[k].msg.own.empty() && c.events[k].msg.chain == 0)) continue;
    Case s = c;
    if (!s.events[k].msg.own.empty()) s.events[k].msg.own.pop_back(); else s.events[k].msg.chain = 0;
    out.push_back(std::move(s));
  }
  for (size_t k = 0; k < c.def.items.size(); ++k) {
    const Item &it = c.def.items[k];
    if (it.width == 0 && !it.left && it.fmt.empty()) continue;
    Case s = c;
    if (!it.fmt.empty()) s.def.items[k].fmt.clear(); else if (it.left) s.def.items[k].left = false; else s.def.items[k].width = 0;
    out.push_back(std::move(s));
  }
  return rc::seq::fromContainer(std::move(out));
}
rc::Gen<Case> genCase() {
  return rc::gen::shrink(rc::gen::noShrink(genCaseRaw()), [](Case &&c) { return shrinkCase(c); });
}

// ------------------------------------------------------------------ exhaustive part
// every field kind x {no width, width 3, width 24} x {right, left} x {no separator, constructor separator}
// in the three positions of a three-field definition "<field> <const> <field'>" (field' = text),
// plus every ordered pair of field kinds with a width on the first only (reset rule), each for
// messages at a day boundary with an own and a global attribute.
void enumerate(const std::function<bool(const Case &)> &cb) {
  auto mkMsg = [](int64_t ts, int variant) {
    Event e;
    e.kind = E_LOG;
    Msg &m = e.msg;
    m.level = 1 + variant % 6; m.cls = 1 + (variant * 5) % 6; m.errnr = variant ? 17 : -3; m.line = variant ? 4711 : 1;
    m.ts = ts; m.file = variant ? "src/lib/file.cpp" : "main.cpp"; m.func = "int main(int, char**)"; m.text = variant ? "two words" : "";
    if (variant) { m.chain = 1; OwnOp o; o.name = "user"; o.value = "own"; m.own.push_back(o); }
    return e;
  };
  std::vector<Event> events;
  Event g; g.kind = E_GADD; g.name = "user"; g.value = "global";
  events.push_back(mkMsg(86399, 0));
  events.push_back(g);
  events.push_back(mkMsg(86400, 0));
  events.push_back(mkMsg(951868799, 1));   // 2000-02-29T23:59:59
  Event op; op.kind = E_OPEN; op.name = "user"; op.value = "scoped";
  Event cl_; cl_.kind = E_CLOSE;
  events.push_back(op);
  events.push_back(mkMsg(978307200, 0));   // 2001-01-01T00:00:00
  events.push_back(cl_);
  events.push_back(mkMsg(978307199, 0));
  const int widths[] = {0, 3, 24};
  for (int k = 0; k < K_SEP; ++k)
    for (int w : widths) for (int left = 0; left < 2; ++left) for (int sep = 0; sep < 2; ++sep) for (int wf = 0; wf < 2; ++wf) {
      if (w == 0 && wf) continue;
      if (k == K_CONST && (w || left)) continue;   // width before a constant text: outside the generated domain
      Case c;
      c.def.ctorSep = sep != 0; c.def.sep = sep ? " | " : "";
      Item a; a.kind = k; a.width = w; a.left = left != 0; a.widthFirst = wf == 0;
      if (k == K_CONST) a.s = "const"; if (k == K_ATTR) a.s = "user";
      Item b; b.kind = K_CONST; b.s = ":";
      Item t; t.kind = K_TEXT;
      c.def.items = {a, b, t};
      c.events = events;
      if (!cb(c)) return;
      c.def.items = {t, a};
      if (!cb(c)) return;
    }
  for (int k1 = 1; k1 < K_SEP; ++k1) for (int k2 = 0; k2 < K_SEP; ++k2) for (int left = 0; left < 2; ++left) {
    Case c;
    Item a; a.kind = k1; a.width = 26; a.left = left != 0; if (k1 == K_ATTR) a.s = "user";
    if (isDateTime(k1)) a.fmt = "%d.%m.%Y";
    Item b; b.kind = k2; if (k2 == K_CONST) b.s = "c"; if (k2 == K_ATTR) b.s = "id";
    c.def.items = {a, b};
    c.events = events;
    if (!cb(c)) return;
  }
}

struct Init {
  Init() {
    setenv("TZ", "UTC", 1);
    tzset();
    auto &m = addMode<Case>("render");
    m.gen = genCase; m.run = runCase; m.show = showCase; m.parse = parseCase; m.enumerator = enumerate;
  }
} init;

}  // namespace

int main(int argc, char **argv) { return harnessMain(argc, argv); }
