// C14 - a log message reaches exactly the destinations whose filters it passes.
//
// Stateful, model based: a generated history (create logs, add recording destinations, switch the
// global duplicate policy, set filters on logs and destinations) is applied to the real
// celma::log::Logging singleton and to an independent filter model. Afterwards one message per
// (log-id subset, level, class) is sent through every public route (Logging::log by id mask / by
// name, the LOG stream macro, the LOG_LEVEL macro with its level pre-check) and the deliveries that
// the recording destinations saw are compared with the model as multisets. The level pre-check
// (Filters::processLevel, detail::discard_by_level) is checked for "never discards what the full
// filters accept".
#include "common/verif.hpp"

#include "celma/log/detail/i_log_dest.hpp"
#include "celma/log/detail/log.hpp"
#include "celma/log/detail/log_msg.hpp"
#include "celma/log/filter/filters.hpp"
#include "celma/log/log_macros.hpp"
#include "celma/log/logging.hpp"

using namespace verif;
namespace cl = celma::log;
using cl::LogClass;
using cl::LogLevel;
using cl::filter::detail::DuplicatePolicy;

namespace {

constexpr int kLevels = 7;    // undefined, fatal .. fullDebug
constexpr int kClasses = 7;   // undefined, sysCall .. operatorAction
constexpr int kMaxLogs = 4;
constexpr int kMaxDests = 3;

// the names a class list may use (celma/log/detail/log_defs.hpp, logClass2text), index = enum value
const char *const kClassNames[kClasses] = {nullptr, "syscall", "data", "communication", "application", "accounting",
                                           "operator action"};
const char *const kClassCanon[kClasses] = {nullptr, "SysCall", "Data", "Communication", "Application", "Accounting",
                                           "Operator Action"};

enum FType { F_MAX, F_MIN, F_LEVEL, F_CLASSES, F_TYPES };
const char *const kFTypeNames[F_TYPES] = {"max", "min", "level", "classes"};
enum Policy { P_IGNORE, P_EXCEPTION, P_REPLACE, P_COUNT };
const char *const kPolicyNames[P_COUNT] = {"ignore", "exception", "replace"};

enum OpKind { OP_POLICY, OP_ADD_LOG, OP_ADD_DEST, OP_SET, OP_KINDS };
const char *const kOpNames[OP_KINDS] = {"policy", "addlog", "adddest", "set"};

struct Op {
  int kind = OP_SET;
  int log = 0;        // index (taken modulo the number of logs that exist at that moment)
  int dest = -1;      // -1: the log itself, else destination index modulo the number of destinations
  int ftype = 0;      // FType
  int level = 0;      // level parameter for max/min/level
  int policy = 0;     // Policy for OP_POLICY
  std::string text;   // log name for OP_ADD_LOG, class list for F_CLASSES
};
struct Case {
  std::vector<Op> ops;
};

// ------------------------------------------------------------------ independent model
// Class list syntax as documented: names separated by ',', empty tokens are ignored
// (common::Tokenizer), names compared without regard to letter case (text2logClass).
// Returns the bit mask (bit i = class i) or -1 for a list that names an unknown class / no class.
int parseClassList(const std::string &text) {
  int mask = 0;
  size_t pos = 0;
  while (pos <= text.size()) {
    size_t e = text.find(',', pos);
    if (e == std::string::npos) e = text.size();
    std::string tok = text.substr(pos, e - pos);
    pos = e + 1;
    if (tok.empty()) continue;
    for (auto &ch : tok) ch = static_cast<char>(tolower(static_cast<unsigned char>(ch)));
    int found = 0;
    for (int c = 1; c < kClasses; ++c) if (tok == kClassNames[c]) found = c;
    if (!found) return -1;
    mask |= 1 << found;
  }
  return mask ? mask : -1;
}

struct OwnerModel {
  int lvl[3] = {-1, -1, -1};   // parameter of the max / min / exact level filter, -1 = no such filter
  int cls = -1;                // accepted classes (bit mask), -1 = no class filter
  bool clsUnknown = false;     // class filter state not specified by the documentation (see run)
  int typesSet = 0;            // bit mask of filter types present
  bool levelPass(int l) const {
    if (lvl[F_MAX] >= 0 && l > lvl[F_MAX]) return false;
    if (lvl[F_MIN] >= 0 && l < lvl[F_MIN]) return false;
    if (lvl[F_LEVEL] >= 0 && l != lvl[F_LEVEL]) return false;
    return true;
  }
  bool pass(int l, int c) const { return levelPass(l) && (cls < 0 || ((cls >> c) & 1)); }
};

struct DestModel {
  OwnerModel f;
  int idx = 0;   // global index = identity in the recorder
};
struct LogModel {
  std::string name;
  cl::id_t id = 0;
  cl::detail::Log *obj = nullptr;
  OwnerModel f;
  std::vector<DestModel> dests;
  std::vector<cl::detail::ILogDest *> destObjs;
};

// ------------------------------------------------------------------ recording destination
struct Hit {
  int dest, level, cls;
  std::string text;
};
struct Recorder {
  std::vector<Hit> hits;
};
class RecDest final : public cl::detail::ILogDest {
public:
  RecDest(Recorder &r, int idx) : mRec(r), mIdx(idx) {}
private:
  void message(const cl::detail::LogMsg &msg) override {
    mRec.hits.push_back({mIdx, static_cast<int>(msg.getLevel()), static_cast<int>(msg.getClass()), msg.getText()});
  }
  Recorder &mRec;
  int mIdx;
};

std::string listStr(const std::vector<int> &v) {
  std::string s = "[";
  for (size_t i = 0; i < v.size(); ++i) s += (i ? "," : "") + std::to_string(v[i]);
  return s + "]";
}

// LOG_LEVEL needs the level as a token
template <class Spec>
void sendByLevelMacro(const Spec &spec, int level, LogClass lc, const std::string &text) {
  switch (level) {
    case 1: { LOG_LEVEL(spec, fatal) << lc << text; } break;
    case 2: { LOG_LEVEL(spec, error) << lc << text; } break;
    case 3: { LOG_LEVEL(spec, warning) << lc << text; } break;
    case 4: { LOG_LEVEL(spec, info) << lc << text; } break;
    case 5: { LOG_LEVEL(spec, debug) << lc << text; } break;
    case 6: { LOG_LEVEL(spec, fullDebug) << lc << text; } break;
    default: break;
  }
}

std::string describeOp(const Op &op) {
  std::string s = kOpNames[op.kind];
  if (op.kind == OP_POLICY) s += std::string(" ") + kPolicyNames[op.policy];
  else if (op.kind == OP_ADD_LOG) s += " '" + op.text + "'";
  else if (op.kind == OP_ADD_DEST) s += " log#" + std::to_string(op.log);
  else {
    s += " log#" + std::to_string(op.log) + (op.dest < 0 ? "" : " dest#" + std::to_string(op.dest)) + " " + kFTypeNames[op.ftype];
    s += op.ftype == F_CLASSES ? " '" + op.text + "'" : " " + std::to_string(op.level);
  }
  return s;
}

std::string runCase(const Case &c) {
  auto &st = stats();
  auto &lg = cl::Logging::instance();   // make sure the type is complete before reset
  (void)lg;
  cl::Logging::reset();
  // cases are independent: whatever policy the previous case of this process ended with, the process is brought back to
  // the documented default through two real transitions (a case that fails must fail from its own file in a fresh process)
  cl::filter::Filters::setDuplicatePolicy(DuplicatePolicy::exception);
  cl::filter::Filters::setDuplicatePolicy(DuplicatePolicy::ignore);
  int policy = P_IGNORE;

  Recorder rec;
  std::vector<LogModel> logs;
  cl::id_t usedIds = 0;
  int nDests = 0;
  bool sawDup = false, twoTypes = false;
  std::vector<bool> unjudged;   // per destination index: class filter state of it or its log unknown

  for (size_t oi = 0; oi < c.ops.size(); ++oi) {
    const Op &op = c.ops[oi];
    const std::string where = "op #" + std::to_string(oi) + " (" + describeOp(op) + "): ";
    switch (op.kind) {
      case OP_POLICY: {
        const DuplicatePolicy p = op.policy == P_IGNORE ? DuplicatePolicy::ignore
                                  : op.policy == P_REPLACE ? DuplicatePolicy::replace : DuplicatePolicy::exception;
        cl::filter::Filters::setDuplicatePolicy(p);
        if (policy != op.policy) st.cls("policy_switch");
        policy = op.policy;
        break;
      }
      case OP_ADD_LOG: {
        int existing = -1;
        for (size_t i = 0; i < logs.size(); ++i) if (logs[i].name == op.text) existing = static_cast<int>(i);
        if (existing < 0 && static_cast<int>(logs.size()) >= kMaxLogs) break;
        cl::id_t id = 0;
        try { id = cl::Logging::instance().findCreateLog(op.text); }
        catch (const std::exception &e) { return where + "findCreateLog threw: " + e.what(); }
        if (existing >= 0) {
          st.cls("log.found_by_name");
          if (id != logs[existing].id) return where + "findCreateLog for an existing name returned a different id";
          break;
        }
        if (id == 0 || (id & usedIds) != 0) return where + "new log id " + std::to_string(id) + " is not disjoint from the ids in use";
        usedIds |= id;
        LogModel m;
        m.name = op.text;
        m.id = id;
        m.obj = cl::Logging::instance().getLog(id);
        if (m.obj == nullptr) return where + "getLog(id) of a new log returned null";
        if (cl::Logging::instance().getLog(op.text) != m.obj) return where + "getLog(name) and getLog(id) disagree";
        logs.push_back(m);
        st.cls("log.created");
        if (policy != P_IGNORE) st.cls("structure_created_after_policy_switch");
        break;
      }
      case OP_ADD_DEST: {
        if (logs.empty()) { st.cls("op.skipped"); break; }
        LogModel &l = logs[op.log % logs.size()];
        if (static_cast<int>(l.dests.size()) >= kMaxDests) break;
        DestModel d;
        d.idx = nDests++;
        unjudged.push_back(false);
        const std::string dname = "d" + std::to_string(l.dests.size());
        auto *obj = new RecDest(rec, d.idx);
        cl::detail::ILogDest *ret = l.obj->addDestination(dname, obj);
        if (ret != obj) return where + "addDestination did not return the destination object";
        try {
          if (l.obj->getDestination(dname) != obj) return where + "getDestination(name) returned another object";
        } catch (const std::exception &e) { return where + "getDestination threw: " + e.what(); }
        l.dests.push_back(d);
        l.destObjs.push_back(obj);
        st.cls("dest.created");
        if (policy != P_IGNORE) st.cls("structure_created_after_policy_switch");
        break;
      }
      case OP_SET: {
        if (logs.empty()) { st.cls("op.skipped"); break; }
        LogModel &l = logs[op.log % logs.size()];
        const bool onDest = op.dest >= 0 && !l.dests.empty();
        const size_t di = onDest ? op.dest % l.dests.size() : 0;
        OwnerModel &m = onDest ? l.dests[di].f : l.f;
        cl::filter::Filters *target = onDest ? static_cast<cl::filter::Filters *>(l.destObjs[di])
                                             : static_cast<cl::filter::Filters *>(l.obj);
        st.cls(std::string("filter.") + kFTypeNames[op.ftype] + (onDest ? ".dest" : ".log"));
        const bool exists = (m.typesSet >> op.ftype) & 1;
        int newCls = -1;
        bool invalidList = false;
        if (op.ftype == F_CLASSES) {
          newCls = parseClassList(op.text);
          invalidList = newCls < 0;
          if (invalidList) st.cls("classes.invalid_list");
          else if ((newCls >> 6) & 1) st.cls("classes.names_operator_action");
        }
        bool threw = false;
        std::string what;
        try {
          switch (op.ftype) {
            case F_MAX: target->maxLevel(static_cast<LogLevel>(op.level)); break;
            case F_MIN: target->minLevel(static_cast<LogLevel>(op.level)); break;
            case F_LEVEL: target->level(static_cast<LogLevel>(op.level)); break;
            default: target->classes(op.text); break;
          }
        } catch (const std::exception &e) { threw = true; what = e.what(); }
        if (exists) { sawDup = true; st.cls(std::string("dup.") + kPolicyNames[policy]); }

        if (invalidList) {
          // Documented: an invalid list is rejected by the filter constructor (exception) when a
          // filter is actually built. What the owner's class filter is afterwards is documented only
          // where the duplicate policy decides before anything is built:
          if (m.clsUnknown) break;
          if (exists && policy == P_IGNORE) break;   // "ignore new filter settings when such a filter already exists"
          if (exists && policy == P_EXCEPTION) {
            if (!threw) return where + "policy 'exception': setting an existing filter type again did not throw";
            break;
          }
          if (!exists && threw) break;               // rejected, nothing was there before: still nothing
          // replace + existing filter, or an invalid list that was silently accepted: not specified.
          // Deliveries that depend on this class filter are no longer judged; memory safety still is
          // (sanitizers), so the messages below are sent all the same.
          m.clsUnknown = true;
          st.cls("classes.state_unspecified_after_rejected_replace");
          break;
        }
        if (m.clsUnknown && op.ftype == F_CLASSES) {
          // whether a class filter exists is unknown: only 'replace' gives a defined result
          if (policy == P_REPLACE) {
            if (threw) return where + "policy 'replace': valid class list was rejected: " + what;
            m.clsUnknown = false; m.cls = newCls; m.typesSet |= 1 << F_CLASSES;
          }
          break;
        }
        const bool expectThrow = exists && policy == P_EXCEPTION;
        if (expectThrow && !threw) return where + "policy 'exception': setting an existing filter type again did not throw";
        if (!expectThrow && threw) return where + "valid filter setting was rejected with an exception: " + what;
        if (!exists || policy == P_REPLACE) {
          if (op.ftype == F_CLASSES) m.cls = newCls; else m.lvl[op.ftype] = op.level;
          m.typesSet |= 1 << op.ftype;
        }
        int n = 0;
        for (int t = 0; t < F_TYPES; ++t) n += (m.typesSet >> t) & 1;
        if (n >= 2) twoTypes = true;
        break;
      }
    }
  }

  for (auto &l : logs) {
    for (auto &d : l.dests) if (l.f.clsUnknown || d.f.clsUnknown) unjudged[d.idx] = true;
  }

  // ---------------------------------------------------------------- level pre-check
  for (auto &l : logs) {
    for (int lv = 0; lv < kLevels; ++lv) {
      const LogLevel ll = static_cast<LogLevel>(lv);
      bool p = true, d1 = false, d2 = false;
      try {
        p = l.obj->processLevel(ll);
        d1 = cl::detail::discard_by_level(l.id, ll);
        d2 = cl::detail::discard_by_level(l.name, ll);
      } catch (const std::exception &e) {
        return "pre-check for log '" + l.name + "' level " + std::to_string(lv) + " threw: " + e.what();
      }
      st.cls(p ? "precheck.process" : "precheck.discard");
      // a class filter always accepts at least one class, so "some message of this level passes the
      // owner's filters" == the level filters accept the level
      if (l.f.levelPass(lv)) {
        if (!p) return "log '" + l.name + "': processLevel(" + std::to_string(lv) + ") is false although the log's filters accept that level";
        // weaker, end-to-end reading for the macro helper: the message would reach a destination
        bool reaches = false;
        for (auto &d : l.dests) if (d.f.levelPass(lv)) reaches = true;
        if (reaches && d1) return "log '" + l.name + "': discard_by_level(id, " + std::to_string(lv) + ") discards a level that the full filters pass on to a destination";
        if (reaches && d2) return "log '" + l.name + "': discard_by_level(name, " + std::to_string(lv) + ") discards a level that the full filters pass on to a destination";
      }
      for (size_t di = 0; di < l.dests.size(); ++di) {
        bool dp = true;
        try { dp = l.destObjs[di]->processLevel(ll); }
        catch (const std::exception &e) { return std::string("destination processLevel threw: ") + e.what(); }
        if (l.dests[di].f.levelPass(lv) && !dp)
          return "destination #" + std::to_string(l.dests[di].idx) + ": processLevel(" + std::to_string(lv) + ") is false although its filters accept that level";
      }
    }
  }

  // ---------------------------------------------------------------- messages
  const unsigned nSub = 1u << logs.size();
  for (unsigned sub = 0; sub < nSub; ++sub) {
    cl::id_t mask = 0;
    int selected = 0, single = -1;
    for (size_t i = 0; i < logs.size(); ++i) if ((sub >> i) & 1) { mask |= logs[i].id; ++selected; single = static_cast<int>(i); }
    if (selected >= 2) st.cls("subset.multi_log");
    for (int lv = 0; lv < kLevels; ++lv) {
      for (int cc = 0; cc < kClasses; ++cc) {
        std::vector<int> expect;
        for (size_t i = 0; i < logs.size(); ++i) {
          if (!((sub >> i) & 1) || !logs[i].f.pass(lv, cc)) continue;
          for (auto &d : logs[i].dests) if (d.f.pass(lv, cc) && !unjudged[d.idx]) expect.push_back(d.idx);
        }
        std::sort(expect.begin(), expect.end());
        const LogLevel ll = static_cast<LogLevel>(lv);
        const LogClass lc = static_cast<LogClass>(cc);
        // routes: 0 Logging::log(id mask), 1 LOG(id mask) stream macro, 2 Logging::log(name),
        // 3 LOG_LEVEL(id), 4 LOG_LEVEL(name)
        for (int route = 0; route < 5; ++route) {
          if (route == 1 && mask == 0) continue;            // the macro refuses an empty id set (documented throw)
          if (route >= 2 && selected != 1) continue;        // a name / LOG_LEVEL addresses exactly one log
          if (route >= 3 && lv == 0) continue;              // LOG_LEVEL needs a real level
          const std::string text = "m r" + std::to_string(route) + " s" + std::to_string(sub) + " l" + std::to_string(lv) + " c" + std::to_string(cc);
          rec.hits.clear();
          try {
            if (route == 0 || route == 2) {
              cl::detail::LogMsg msg("log_filter.cpp", "void run()", 1);
              msg.setLevel(ll);
              msg.setClass(lc);
              msg.setText(text);
              if (route == 0) cl::Logging::instance().log(mask, msg);
              else cl::Logging::instance().log(logs[single].name, msg);
            } else if (route == 1) {
              LOG(mask) << ll << lc << text;
            } else if (route == 3) {
              sendByLevelMacro(logs[single].id, lv, lc, text);
            } else {
              sendByLevelMacro(logs[single].name, lv, lc, text);
            }
          } catch (const std::exception &e) {
            return "sending " + text + " threw: " + e.what();
          }
          std::vector<int> got;
          for (auto &h : rec.hits) {
            if (h.level != lv || h.cls != cc || h.text != text)
              return "destination #" + std::to_string(h.dest) + " received a message that differs from the one sent (" + text + "): level " +
                     std::to_string(h.level) + " class " + std::to_string(h.cls) + " text '" + h.text + "'";
            if (!unjudged[h.dest]) got.push_back(h.dest);
          }
          std::sort(got.begin(), got.end());
          if (got != expect) {
            static const char *const rn[] = {"Logging::log(ids)", "LOG(ids) macro", "Logging::log(name)", "LOG_LEVEL(id) macro", "LOG_LEVEL(name) macro"};
            return std::string(rn[route]) + ", logs selected " + std::to_string(sub) + " (bit i = log #i), level " + std::to_string(lv) + ", class " +
                   std::to_string(cc) + (cc ? std::string(" (") + kClassCanon[cc] + ")" : "") + ": destinations reached " + listStr(got) + ", model says " + listStr(expect);
          }
          if (!st.frozen) st.classes[route == 0 ? "route.log_ids" : route == 1 ? "route.stream_macro" : route == 2 ? "route.log_name" : "route.level_macro"] += 1;
        }
      }
    }
  }

  if ((twoTypes || sawDup) && logs.size() >= 2) st.markNontrivial();

  // clean up (success path only): the singleton does not own the Log objects
  std::vector<cl::detail::Log *> objs;
  for (auto &l : logs) objs.push_back(l.obj);
  cl::Logging::reset();
  for (auto *o : objs) delete o;
  return "";
}

// ------------------------------------------------------------------ (de)serialisation
std::string showCase(const Case &c) {
  Writer w;
  w.tag("logfilter").u(c.ops.size()).nl();
  for (auto &o : c.ops) {
    w.tag(kOpNames[o.kind]);
    switch (o.kind) {
      case OP_POLICY: w.tag(kPolicyNames[o.policy]); break;
      case OP_ADD_LOG: w.s(o.text); break;
      case OP_ADD_DEST: w.u(o.log); break;
      default: w.u(o.log).i(o.dest).tag(kFTypeNames[o.ftype]).u(o.level).s(o.text); break;
    }
    w.nl();
  }
  return w.str();
}
int lookup(const std::string &k, const char *const *names, int n, const char *what) {
  for (int i = 0; i < n; ++i) if (k == names[i]) return i;
  throw std::runtime_error(std::string("bad ") + what + " " + k);
}
Case parseCase(const std::string &t) {
  Reader r(t);
  Case c;
  r.tag();
  size_t n = r.u();
  for (size_t i = 0; i < n; ++i) {
    Op o;
    o.kind = lookup(r.tag(), kOpNames, OP_KINDS, "op");
    switch (o.kind) {
      case OP_POLICY: o.policy = lookup(r.tag(), kPolicyNames, P_COUNT, "policy"); break;
      case OP_ADD_LOG: o.text = r.s(); break;
      case OP_ADD_DEST: o.log = static_cast<int>(r.u()); break;
      default:
        o.log = static_cast<int>(r.u()); o.dest = static_cast<int>(r.i());
        o.ftype = lookup(r.tag(), kFTypeNames, F_TYPES, "filter type");
        o.level = static_cast<int>(r.u()); o.text = r.s();
        if (o.level >= kLevels) throw std::runtime_error("bad level");
        break;
    }
    c.ops.push_back(o);
  }
  return c;
}

// ------------------------------------------------------------------ generators
const char *const kLogNames[] = {"trace", "Trace", "trace2", "oper", "debug log"};

// spells a class name in some letter case
std::string spellName(int cls, int style, uint64_t bits) {
  std::string s = kClassCanon[cls];
  for (size_t i = 0; i < s.size(); ++i) {
    unsigned char ch = static_cast<unsigned char>(s[i]);
    switch (style) {
      case 0: break;                                           // canonical
      case 1: s[i] = static_cast<char>(tolower(ch)); break;
      case 2: s[i] = static_cast<char>(toupper(ch)); break;
      default: s[i] = static_cast<char>(((bits >> (i % 60)) & 1) ? toupper(ch) : tolower(ch)); break;
    }
  }
  return s;
}

rc::Gen<std::string> genClassList() {
  return rc::gen::exec([]() {
    // non-empty subset of the six classes, operatorAction (the last one) included in about half of them
    int mask = *range<int>(1, 63);
    if (*range<int>(0, 9) < 2) mask |= 1 << 5;
    if (*range<int>(0, 9) == 0) mask = 1 << *range<int>(0, 5);
    std::vector<int> names;
    for (int i = 0; i < 6; ++i) if ((mask >> i) & 1) names.push_back(i + 1);
    // order is free, a name may appear twice
    for (size_t i = names.size(); i > 1; --i) std::swap(names[i - 1], names[*range<size_t>(0, i - 1)]);
    if (*range<int>(0, 7) == 0) names.push_back(names[*range<size_t>(0, names.size() - 1)]);
    const int style = *range<int>(0, 3);
    std::string s;
    if (*range<int>(0, 11) == 0) s += ",";              // empty tokens are ignored (documented)
    for (size_t i = 0; i < names.size(); ++i) {
      if (i) s += *range<int>(0, 11) == 0 ? ",," : ",";
      s += spellName(names[i], style, *rc::gen::arbitrary<uint64_t>());
    }
    if (*range<int>(0, 11) == 0) s += ",";
    return s;
  });
}

rc::Gen<std::string> genInvalidClassList() {
  return rc::gen::exec([]() {
    std::string good = *genClassList();
    switch (*range<int>(0, 5)) {
      case 0: return std::string("bogus");
      case 1: return good + ",bogus";
      case 2: return std::string("nosuchclass,") + good;
      case 3: return std::string("");
      case 4: return std::string(",");
      default: return std::string("undefined");
    }
  });
}

rc::Gen<Op> genSet(int nLogs) {
  return rc::gen::exec([nLogs]() {
    Op o;
    o.kind = OP_SET;
    o.log = *range<int>(0, nLogs - 1);
    o.dest = *rc::gen::weightedOneOf<int>({{4, just<int>(-1)}, {6, range<int>(0, kMaxDests - 1)}});
    o.ftype = *rc::gen::weightedElement<int>({{3, F_MAX}, {3, F_MIN}, {3, F_LEVEL}, {4, F_CLASSES}});
    if (o.ftype == F_CLASSES) {
      o.text = *rc::gen::weightedOneOf<std::string>({{30, genClassList()}, {1, genInvalidClassList()}});
    } else {
      o.level = *rc::gen::weightedOneOf<int>({{1, just<int>(0)}, {12, range<int>(1, 6)}});
    }
    return o;
  });
}

rc::Gen<Case> genCaseRaw() {
  return rc::gen::exec([]() {
    Case c;
    const int nLogs = *rc::gen::weightedElement<int>({{2, 1}, {4, 2}, {3, 3}, {2, 4}});
    // structure script
    std::vector<Op> structure;
    for (int i = 0; i < nLogs; ++i) {
      Op a;
      a.kind = OP_ADD_LOG;
      a.text = kLogNames[i];
      structure.push_back(a);
      const int nd = *rc::gen::weightedElement<int>({{5, 1}, {3, 2}, {2, 3}});
      for (int d = 0; d < nd; ++d) {
        Op b;
        b.kind = OP_ADD_DEST;
        b.log = i;
        structure.push_back(b);
      }
    }
    if (*range<int>(0, 5) == 0) {   // a lookup of an existing name in between
      Op a;
      a.kind = OP_ADD_LOG;
      a.text = kLogNames[*range<int>(0, nLogs - 1)];
      structure.push_back(a);
    }
    // history script: filter settings with policy switches in between; revisits of the same
    // (owner, type) are made likely so that duplicates occur under every policy
    std::vector<Op> history;
    const size_t nSet = *rc::gen::weightedOneOf<size_t>({{1, just<size_t>(0)}, {8, range<size_t>(1, 8)}, {3, range<size_t>(9, 16)}});
    for (size_t i = 0; i < nSet; ++i) {
      if (*range<int>(0, 2) == 0) {
        Op p;
        p.kind = OP_POLICY;
        p.policy = *range<int>(0, P_COUNT - 1);
        history.push_back(p);
      }
      Op s = *genSet(nLogs);
      if (!history.empty() && *range<int>(0, 2) == 0) {
        // same owner and type as an earlier setting -> duplicate
        std::vector<size_t> earlier;
        for (size_t k = 0; k < history.size(); ++k) if (history[k].kind == OP_SET) earlier.push_back(k);
        if (!earlier.empty()) {
          const Op &e = history[earlier[*range<size_t>(0, earlier.size() - 1)]];
          s.log = e.log; s.dest = e.dest;
          if (s.ftype != e.ftype) {
            s.ftype = e.ftype;
            if (s.ftype == F_CLASSES) s.text = *genClassList(); else { s.text.clear(); s.level = *range<int>(1, 6); }
          }
        }
      }
      history.push_back(s);
    }
    // merge: either structure first (the common set-up order: create everything, then configure),
    // or policy switches / settings interleaved with the creation of logs and destinations
    const int mode = *rc::gen::weightedElement<int>({{4, 0}, {3, 1}, {3, 2}});
    size_t si = 0, hi = 0;
    // the first log and its first destination always come first
    c.ops.push_back(structure[si++]);
    c.ops.push_back(structure[si++]);
    if (mode == 1) {
      // the policy is configured once, before anything else is created
      Op p;
      p.kind = OP_POLICY;
      p.policy = *range<int>(0, P_COUNT - 1);
      c.ops.insert(c.ops.begin(), p);
    }
    while (si < structure.size() || hi < history.size()) {
      bool takeStructure;
      if (si >= structure.size()) takeStructure = false;
      else if (hi >= history.size()) takeStructure = true;
      else if (mode == 2) takeStructure = *range<int>(0, 2) == 0;
      else takeStructure = true;
      c.ops.push_back(takeStructure ? structure[si++] : history[hi++]);
    }
    return c;
  });
}

// every op list is a valid case (indices are taken modulo what exists), so a failing history is
// shrunk by dropping operations: first halves/blocks, then single operations
rc::Seq<Case> shrinkCase(const Case &c) {
  std::vector<Case> out;
  const size_t n = c.ops.size();
  for (size_t block = n / 2; block >= 1; block /= 2) {
    for (size_t start = 0; start + block <= n; start += block) {
      Case s;
      for (size_t i = 0; i < n; ++i) if (i < start || i >= start + block) s.ops.push_back(c.ops[i]);
      out.push_back(std::move(s));
    }
    if (block == 1) break;
  }
  return rc::seq::fromContainer(std::move(out));
}
rc::Gen<Case> genCase() {
  return rc::gen::shrink(rc::gen::noShrink(genCaseRaw()), [](Case &&c) { return shrinkCase(c); });
}

// ------------------------------------------------------------------ exhaustive part
// one log with one destination;
//  (1) every single filter setting (3 level types x 7 levels, every non-empty subset of the six
//      classes) on the log or on the destination,
//  (2) every ordered pair of settings (class subsets from a representative list) x the policy in
//      force for the second one x the policy being set before the log exists or between the settings;
// each followed by all 49 (level, class) messages over every route.
void enumerate(const std::function<bool(const Case &)> &cb) {
  auto classText = [](int mask) {
    std::string s;
    for (int i = 0; i < 6; ++i) if ((mask >> i) & 1) { if (!s.empty()) s += ","; s += kClassNames[i + 1]; }
    return s;
  };
  auto setting = [&](int owner, int k, const std::vector<int> &subsets) {
    // k: 0..20 level settings, 21.. class subsets
    Op o;
    o.kind = OP_SET; o.log = 0; o.dest = owner ? 0 : -1;
    if (k < 21) { o.ftype = k / 7; o.level = k % 7; }
    else { o.ftype = F_CLASSES; o.text = classText(subsets[k - 21]); }
    return o;
  };
  Op addLog; addLog.kind = OP_ADD_LOG; addLog.text = "trace";
  Op addDest; addDest.kind = OP_ADD_DEST; addDest.log = 0;
  std::vector<int> all;
  for (int m = 1; m < 64; ++m) all.push_back(m);
  for (int owner = 0; owner < 2; ++owner)
    for (int k = 0; k < 21 + 63; ++k) {
      Case c;
      c.ops = {addLog, addDest, setting(owner, k, all)};
      if (!cb(c)) return;
    }
  const std::vector<int> some = {1, 2, 4, 8, 16, 32, 63, 33, 14, 48};
  const int nk = 21 + static_cast<int>(some.size());
  for (int o1 = 0; o1 < 2; ++o1) for (int k1 = 0; k1 < nk; ++k1)
    for (int o2 = 0; o2 < 2; ++o2) for (int k2 = 0; k2 < nk; ++k2)
      for (int p = 0; p < P_COUNT; ++p)
        for (int early = 0; early < 2; ++early) {
          Op pol; pol.kind = OP_POLICY; pol.policy = p;
          Case c;
          if (early) c.ops = {pol, addLog, addDest, setting(o1, k1, some), setting(o2, k2, some)};
          else c.ops = {addLog, addDest, setting(o1, k1, some), pol, setting(o2, k2, some)};
          if (!cb(c)) return;
        }
}

struct Init {
  Init() {
    auto &m = addMode<Case>("history");
    m.gen = genCase; m.run = runCase; m.show = showCase; m.parse = parseCase; m.enumerator = enumerate;
  }
} init;

}  // namespace

int main(int argc, char **argv) { return harnessMain(argc, argv); }
