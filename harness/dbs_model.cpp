// C12 - DynamicBitset behaves like a growable reference bit vector.
#include "common/verif.hpp"

#include "celma/container/dynamic_bitset.hpp"

#include <bitset>

using namespace verif;
using celma::container::DynamicBitset;

namespace {

enum OpKind {
  SET_ALL, SET_POS, RESET_ALL, RESET_POS, FLIP_ALL, FLIP_POS, IDX_WRITE, IDX_READ, RESIZE,
  AND_ASSIGN, OR_ASSIGN, XOR_ASSIGN, SHL, SHR, ASSIGN_VECTOR, ASSIGN_BITSET, INVERT, TEST, CONST_IDX,
  COPY_ROUNDTRIP, OP_KINDS
};
const char *const kOpNames[] = {"set_all", "set_pos", "reset_all", "reset_pos", "flip_all", "flip_pos", "idx_write",
                                "idx_read", "resize", "and_assign", "or_assign", "xor_assign", "shl", "shr",
                                "assign_vector", "assign_bitset", "invert", "test", "const_idx", "copy_roundtrip"};

struct Op {
  int kind = 0;
  uint64_t a = 0;       // position / shift / new size / bitset value
  bool v = false;       // value for set/idx_write/resize
  std::string bits;     // other operand (char '0'/'1', index 0 first)
};
struct Case {
  std::string init;
  std::vector<Op> ops;
};

using Ref = std::vector<bool>;
// positions from here on cannot be part of any vector<bool> (its max_size() is below 2^63)
const uint64_t kHuge = 1ull << 63;
const uint64_t kHugePositions[] = {SIZE_MAX, SIZE_MAX - 1, SIZE_MAX - 6, SIZE_MAX - 63, SIZE_MAX - 64, SIZE_MAX / 3 * 2 - 1, SIZE_MAX / 3 * 2,
                                   SIZE_MAX / 3 * 2 + 1, SIZE_MAX / 3 * 2 + 2, kHuge, kHuge + 1};

Ref fromBits(const std::string &s) { Ref r; for (char c : s) r.push_back(c == '1'); return r; }
std::string toBits(const Ref &r) { std::string s; for (bool b : r) s += b ? '1' : '0'; return s; }

std::string describe(const DynamicBitset &d) { return "size " + std::to_string(d.size()) + " msb-first \"" + d.to_string() + "\""; }

// full observer comparison
std::string compareAll(const DynamicBitset &d, const Ref &ref) {
  if (d.size() != ref.size()) return "size() is " + std::to_string(d.size()) + ", reference " + std::to_string(ref.size());
  size_t cnt = 0;
  for (bool b : ref) cnt += b;
  if (d.count() != cnt) return "count() is " + std::to_string(d.count()) + ", reference " + std::to_string(cnt);
  if (d.any() != (cnt > 0)) return "any() wrong";
  if (d.none() != (cnt == 0)) return "none() wrong";
  if (d.all() != (cnt == ref.size())) return "all() wrong";
  std::string expect(ref.size(), '0');
  for (size_t i = 0; i < ref.size(); ++i) if (ref[i]) expect[ref.size() - 1 - i] = '1';
  if (d.to_string() != expect) return "to_string() is \"" + d.to_string() + "\", reference \"" + expect + "\"";
  std::string custom = d.to_string<char>('.', 'x');
  for (size_t i = 0; i < expect.size(); ++i)
    if (custom.size() != expect.size() || custom[i] != (expect[i] == '1' ? 'x' : '.')) return "to_string('.','x') wrong";
  // to_ulong
  bool overflow = false;
  unsigned long val = 0;
  for (size_t i = 0; i < ref.size(); ++i) if (ref[i]) { if (i >= 64) overflow = true; else val |= 1UL << i; }
  try {
    unsigned long got = d.to_ulong();
    if (overflow) return "to_ulong() did not throw although a bit >= 64 is set";
    if (got != val) return "to_ulong() is " + std::to_string(got) + ", reference " + std::to_string(val);
  } catch (const std::overflow_error &) {
    if (!overflow) return "to_ulong() threw without a bit >= 64";
  }
  for (size_t i = 0; i < ref.size(); ++i) {
    if (d.test(i) != ref[i]) return "test(" + std::to_string(i) + ") wrong";
    if (d[i] != ref[i]) return "const [](" + std::to_string(i) + ") wrong";
  }
  // documented throws at and beyond the size
  for (size_t p : {ref.size(), ref.size() + 1, ref.size() + 70}) {
    try { d.test(p); return "test(" + std::to_string(p) + ") beyond the size did not throw"; } catch (const std::out_of_range &) {}
    try { (void)d[p]; return "const [](" + std::to_string(p) + ") at/beyond the size did not throw"; } catch (const std::out_of_range &) {}
  }
  // equality between bitsets of equal size
  DynamicBitset same(ref);
  if (!(d == same)) return "operator== false against a bitset with identical content";
  if (!ref.empty()) {
    Ref other = ref;
    other[ref.size() / 2] = !other[ref.size() / 2];
    if (d == DynamicBitset(other)) return "operator== true against a bitset that differs in one bit";
  }
  // iteration
  std::vector<size_t> asc;
  for (size_t i = 0; i < ref.size(); ++i) if (ref[i]) asc.push_back(i);
  std::vector<size_t> desc(asc.rbegin(), asc.rend());
  try {
    std::vector<size_t> got;
    size_t guard = 0;
    for (auto p : d) { got.push_back(p); if (++guard > ref.size() + 2) return "forward iteration does not terminate"; }
    if (got != asc) return "range-for visits the wrong positions (" + std::to_string(got.size()) + " instead of " + std::to_string(asc.size()) + ")";
    got.clear(); guard = 0;
    for (auto it = d.cbegin(); it != d.cend(); it++) { got.push_back(*it); if (++guard > ref.size() + 2) return "cbegin iteration does not terminate"; }
    if (got != asc) return "cbegin()/cend() iteration visits the wrong positions";
    DynamicBitset copy(d);
    got.clear(); guard = 0;
    for (auto it = copy.begin(); it != copy.end(); ++it) { got.push_back(*it); if (++guard > ref.size() + 2) return "non-const iteration does not terminate"; }
    if (got != asc) return "non-const begin()/end() iteration visits the wrong positions";
    got.clear(); guard = 0;
    for (auto it = d.rbegin(); it != d.rend(); ++it) { got.push_back(*it); if (++guard > ref.size() + 2) return "reverse iteration does not terminate"; }
    if (got != desc) return "reverse iteration visits the wrong positions";
    got.clear(); guard = 0;
    for (auto it = copy.rbegin(); it != copy.rend(); it++) { got.push_back(*it); if (++guard > ref.size() + 2) return "non-const reverse iteration does not terminate"; }
    if (got != desc) return "non-const reverse iteration visits the wrong positions";
    got.clear(); guard = 0;
    for (auto it = d.crbegin(); it != d.crend(); ++it) { got.push_back(*it); if (++guard > ref.size() + 2) return "crbegin iteration does not terminate"; }
    if (got != desc) return "crbegin()/crend() iteration visits the wrong positions";
    // stepping back from end() yields the set positions in descending order
    got.clear();
    auto it = d.end();
    for (size_t k = 0; k < asc.size(); ++k) { --it; got.push_back(*it); }
    if (got != desc) return "decrementing from end() does not visit the set positions in descending order";
  } catch (const std::exception &e) {
    return std::string("iteration threw: ") + e.what();
  }
  return "";
}

std::string runCase(const Case &c) {
  auto &st = stats();
  Ref ref = fromBits(c.init);
  DynamicBitset d(ref);
  if (c.init.empty()) { d = DynamicBitset(0); }
  std::string m = compareAll(d, ref);
  if (!m.empty()) return "initial: " + m;
  bool nontrivial = false;
  for (size_t oi = 0; oi < c.ops.size(); ++oi) {
    const Op &op = c.ops[oi];
    const size_t before = ref.size();
    std::string where = "op #" + std::to_string(oi) + " " + kOpNames[op.kind] + "(" + std::to_string(op.a) +
                        (op.bits.empty() ? "" : ",\"" + op.bits + "\"") + ") on size " + std::to_string(before) + ": ";
    st.cls(std::string("op.") + kOpNames[op.kind]);
    auto grow = [&](size_t pos) -> std::string {   // documented growth, factor left abstract
      if (pos < before) {
        if (d.size() != before) return "size changed although the position was inside";
        return "";
      }
      st.cls("growth");
      nontrivial = true;
      if (d.size() <= pos) return "position " + std::to_string(pos) + " >= size " + std::to_string(before) +
                                  " was addressed but the bitset did not grow beyond it (size now " + std::to_string(d.size()) + ")";
      ref.resize(d.size(), false);
      return "";
    };
    try {
      switch (op.kind) {
        case SET_ALL: d.set(); ref.assign(ref.size(), true); break;
        case SET_POS: case RESET_POS: case FLIP_POS:
          if (op.a >= kHuge) {
            // no vector<bool> can include this position (max_size() < 2^63): the only acceptable outcome is an exception,
            // nothing changed - also where 1.5 x (position + 1) does not fit into size_t any more
            st.cls(op.a == SIZE_MAX ? "position_size_max" : "position_huge");
            nontrivial = true;
            bool threw = false;
            try { if (op.kind == SET_POS) d.set(op.a, op.v); else if (op.kind == RESET_POS) d.reset(op.a); else d.flip(op.a); }
            catch (const std::exception &) { threw = true; }
            if (!threw) return where + "position " + std::to_string(op.a) + " (no size can include it) was accepted";
            if (d.size() != ref.size()) return where + "refused position " + std::to_string(op.a) + " changed the size to " + std::to_string(d.size());
            break;
          }
          if (op.kind == SET_POS) { d.set(op.a, op.v); std::string g = grow(op.a); if (!g.empty()) return where + g; ref[op.a] = op.v; break; }
          if (op.kind == RESET_POS) { d.reset(op.a); std::string g = grow(op.a); if (!g.empty()) return where + g; ref[op.a] = false; break; }
          { d.flip(op.a); std::string g = grow(op.a); if (!g.empty()) return where + g; ref[op.a] = !ref[op.a]; break; }
        case RESET_ALL: {
          d.reset();
          if (d.count() != 0) return where + "reset() left bits set";
          ref.assign(d.size(), false);   // size after reset() is the implementation's choice
          break;
        }
        case FLIP_ALL: d.flip(); ref.flip(); break;
        case IDX_WRITE: { d[op.a] = op.v; std::string g = grow(op.a); if (!g.empty()) return where + g; ref[op.a] = op.v; break; }
        case IDX_READ: {
          bool b = d[op.a];
          std::string g = grow(op.a);
          if (!g.empty()) return where + g;
          if (b != ref[op.a]) return where + "non-const [] returned the wrong value";
          break;
        }
        case RESIZE: d.resize(op.a, op.v); ref.resize(op.a, op.v); break;
        case AND_ASSIGN: case OR_ASSIGN: case XOR_ASSIGN: {
          Ref o = fromBits(op.bits);
          DynamicBitset od(o);
          if (op.bits.empty()) od = DynamicBitset(0);
          DynamicBitset bin = op.kind == AND_ASSIGN ? (d & od) : op.kind == OR_ASSIGN ? (d | od) : (d ^ od);
          if (op.kind == AND_ASSIGN) d &= od; else if (op.kind == OR_ASSIGN) d |= od; else d ^= od;
          if (bin.to_string() != d.to_string()) return where + "compound result {" + describe(d) + "} differs from binary result {" + describe(bin) + "}";
          // reference: zero-extended operands; &= keeps the size, |= and ^= grow to the larger one
          size_t n = op.kind == AND_ASSIGN ? before : std::max(before, o.size());
          Ref r(n, false);
          for (size_t i = 0; i < n; ++i) {
            bool x = i < before ? ref[i] : false, y = i < o.size() ? o[i] : false;
            r[i] = op.kind == AND_ASSIGN ? (x && y) : op.kind == OR_ASSIGN ? (x || y) : (x != y);
          }
          ref = r;
          if (o.size() != before) { st.cls("binary_op_different_sizes"); nontrivial = true; }
          break;
        }
        case SHL: case SHR: {
          DynamicBitset bin = op.kind == SHL ? (d << op.a) : (d >> op.a);
          if (op.kind == SHL) d <<= op.a; else d >>= op.a;
          if (bin.to_string() != d.to_string()) return where + "compound result {" + describe(d) + "} differs from binary result {" + describe(bin) + "}";
          if (op.kind == SHL) {
            // growable: no set bit is lost; size is the implementation's choice but must hold every bit
            std::vector<size_t> setPos;
            for (size_t i = 0; i < before; ++i) if (ref[i]) setPos.push_back(i + op.a);
            if (!setPos.empty() && d.size() <= setPos.back()) return where + "left shift lost the highest bit (size " + std::to_string(d.size()) + ")";
            if (d.size() < before) return where + "left shift shrank the bitset";
            Ref r(d.size(), false);
            for (size_t p : setPos) r[p] = true;
            ref = r;
          } else {
            Ref r(before, false);
            for (size_t i = 0; i + op.a < before; ++i) r[i] = ref[i + op.a];
            ref = r;
          }
          if (op.a >= before) { st.cls("shift_by_size_or_more"); nontrivial = true; }
          break;
        }
        case ASSIGN_VECTOR: { Ref o = fromBits(op.bits); if (op.v) { d = o; } else { Ref tmp = o; d = std::move(tmp); } ref = o; break; }
        case ASSIGN_BITSET: {
          std::bitset<10> bs(op.a & 0x3ff);
          if (op.v) d = bs; else d = DynamicBitset(bs);
          ref.assign(10, false);
          for (size_t i = 0; i < 10; ++i) ref[i] = bs[i];
          break;
        }
        case INVERT: { DynamicBitset inv = ~d; d = inv; ref.flip(); break; }
        case TEST: {
          try {
            bool b = d.test(op.a);
            if (op.a >= before) return where + "test() at/beyond the size did not throw";
            if (b != ref[op.a]) return where + "test() returned the wrong value";
          } catch (const std::out_of_range &) {
            if (op.a < before) return where + "test() threw for a position inside";
          }
          break;
        }
        case CONST_IDX: {
          const DynamicBitset &cd = d;
          try {
            bool b = cd[op.a];
            if (op.a >= before) return where + "const [] at/beyond the size did not throw";
            if (b != ref[op.a]) return where + "const [] returned the wrong value";
          } catch (const std::out_of_range &) {
            if (op.a < before) return where + "const [] threw for a position inside";
          }
          if (op.a >= before) { st.cls("const_access_beyond_size"); nontrivial = true; }
          break;
        }
        case COPY_ROUNDTRIP: { DynamicBitset cp(d); DynamicBitset mv(std::move(cp)); d = mv; break; }
      }
    } catch (const std::exception &e) {
      return where + "threw " + e.what();
    }
    m = compareAll(d, ref);
    if (!m.empty()) return where + m;
  }
  if (nontrivial) st.markNontrivial();
  return "";
}

std::string showCase(const Case &c) {
  Writer w;
  w.tag("dbs").s(c.init).u(c.ops.size()).nl();
  for (auto &o : c.ops) w.tag(kOpNames[o.kind]).u(o.a).u(o.v).s(o.bits).nl();
  return w.str();
}
Case parseCase(const std::string &t) {
  Reader r(t);
  Case c;
  r.tag(); c.init = r.s();
  size_t n = r.u();
  for (size_t i = 0; i < n; ++i) {
    Op o;
    std::string k = r.tag();
    o.kind = -1;
    for (int j = 0; j < OP_KINDS; ++j) if (k == kOpNames[j]) o.kind = j;
    if (o.kind < 0) throw std::runtime_error("bad op " + k);
    o.a = r.u(); o.v = r.u() != 0; o.bits = r.s();
    c.ops.push_back(o);
  }
  return c;
}

rc::Gen<std::string> genBits(size_t maxLen) {
  return rc::gen::exec([maxLen]() {
    size_t n = *rc::gen::weightedOneOf<size_t>({{1, just<size_t>(0)}, {6, range<size_t>(0, 12)}, {2, just<size_t>(63)}, {2, just<size_t>(64)},
                                                {2, just<size_t>(65)}, {1, just<size_t>(128)}, {3, range<size_t>(0, maxLen)}});
    int style = *range<int>(0, 5);
    std::string s;
    for (size_t i = 0; i < n; ++i) s += style == 0 ? '0' : style == 1 ? '1' : (*rc::gen::arbitrary<bool>() ? '1' : '0');
    return s;
  });
}

rc::Gen<Case> genCase() {
  return rc::gen::exec([]() {
    Case c;
    c.init = *genBits(200);
    size_t cur = c.init.size();   // rough tracking of the size for boundary biased positions
    size_t nops = *range<size_t>(1, 30);
    for (size_t i = 0; i < nops; ++i) {
      Op o;
      o.kind = *range<int>(0, OP_KINDS - 1);
      auto pos = [&]() {
        return *rc::gen::weightedOneOf<uint64_t>({{2, just<uint64_t>(0)}, {3, just<uint64_t>(cur ? cur - 1 : 0)}, {5, just<uint64_t>(cur)},
                                                  {2, just<uint64_t>(cur + 1)}, {1, just<uint64_t>(cur + 3)}, {1, just<uint64_t>(63)},
                                                  {1, just<uint64_t>(64)}, {6, range<uint64_t>(0, cur + 8)}});
      };
      o.v = *rc::gen::arbitrary<bool>();
      switch (o.kind) {
        case SET_POS: case RESET_POS: case FLIP_POS: case IDX_WRITE: case IDX_READ:
          o.a = pos();
          if ((o.kind == SET_POS || o.kind == RESET_POS || o.kind == FLIP_POS) && *range<int>(0, 24) == 0) {
            // positions that no size can include: the top of the range, around 2/3 of it (where 1.5 x size overflows), 2^63
            o.a = *rc::gen::weightedOneOf<uint64_t>({{2, just<uint64_t>(SIZE_MAX)}, {3, rc::gen::map(range<uint64_t>(0, 70), [](uint64_t k) { return SIZE_MAX - k; })},
                                                      {2, rc::gen::map(range<uint64_t>(0, 8), [](uint64_t k) { return SIZE_MAX / 3 * 2 - 4 + k; })},
                                                      {1, just<uint64_t>(kHuge)}, {1, just<uint64_t>(kHuge + 1)}, {2, range<uint64_t>(kHuge, SIZE_MAX)}});
            break;
          }
          if (o.a >= cur) cur = static_cast<size_t>((o.a + 1) * 1.5);
          break;
        case TEST: case CONST_IDX: o.a = pos(); break;
        case RESIZE: o.a = *range<uint64_t>(0, cur + 10); cur = o.a; break;
        case SHL: o.a = *rc::gen::weightedOneOf<uint64_t>({{1, just<uint64_t>(0)}, {1, just<uint64_t>(cur)}, {5, range<uint64_t>(0, cur + 5)}}); if (cur && o.a) cur += o.a; break;
        case SHR: o.a = *rc::gen::weightedOneOf<uint64_t>({{1, just<uint64_t>(0)}, {2, just<uint64_t>(cur)}, {1, just<uint64_t>(cur + 1)}, {5, range<uint64_t>(0, cur + 5)}}); break;
        case AND_ASSIGN: case OR_ASSIGN: case XOR_ASSIGN: case ASSIGN_VECTOR:
          o.bits = *rc::gen::oneOf(genBits(80), rc::gen::map(genBits(80), [cur](std::string s) { s.resize(cur, '1'); return s; }));
          if (o.kind == ASSIGN_VECTOR) cur = o.bits.size(); else if (o.kind != AND_ASSIGN) cur = std::max(cur, o.bits.size());
          break;
        case ASSIGN_BITSET: o.a = *range<uint64_t>(0, 1023); cur = 10; break;
        case RESET_ALL: cur = 0; break;
        default: break;
      }
      if (cur > 600) cur = 600;
      c.ops.push_back(o);
    }
    return c;
  });
}

// exhaustive: every bitset of size 0..6 x every single operation x positions/shifts 0..size+3 x every operand of size 0..6
void enumerate(const std::function<bool(const Case &)> &cb) {
  std::vector<std::string> all;
  for (size_t n = 0; n <= 6; ++n)
    for (unsigned v = 0; v < (1u << n); ++v) {
      std::string s;
      for (size_t i = 0; i < n; ++i) s += ((v >> i) & 1) ? '1' : '0';
      all.push_back(s);
    }
  for (auto &init : all) {
    for (int kind = 0; kind < OP_KINDS; ++kind) {
      auto emit = [&](Op o) { Case c; c.init = init; o.kind = kind; c.ops.push_back(o); return cb(c); };
      switch (kind) {
        case SET_POS: case IDX_WRITE: case RESIZE:
          for (uint64_t p = 0; p <= init.size() + 3; ++p) for (int v = 0; v < 2; ++v) { Op o; o.a = p; o.v = v; if (!emit(o)) return; }
          if (kind == SET_POS) for (uint64_t p : kHugePositions) { Op o; o.a = p; o.v = true; if (!emit(o)) return; }
          break;
        case RESET_POS: case FLIP_POS: case IDX_READ: case TEST: case CONST_IDX: case SHL: case SHR:
          for (uint64_t p = 0; p <= init.size() + 3; ++p) { Op o; o.a = p; if (!emit(o)) return; }
          if (kind == RESET_POS || kind == FLIP_POS) for (uint64_t p : kHugePositions) { Op o; o.a = p; if (!emit(o)) return; }
          break;
        case AND_ASSIGN: case OR_ASSIGN: case XOR_ASSIGN:
          for (auto &other : all) { Op o; o.bits = other; if (!emit(o)) return; }
          break;
        case ASSIGN_VECTOR:
          for (auto &other : all) if (other.size() <= 3) for (int v = 0; v < 2; ++v) { Op o; o.bits = other; o.v = v; if (!emit(o)) return; }
          break;
        case ASSIGN_BITSET:
          for (uint64_t v : {0ULL, 1ULL, 512ULL, 1023ULL, 0x155ULL}) for (int b = 0; b < 2; ++b) { Op o; o.a = v; o.v = b; if (!emit(o)) return; }
          break;
        default: { Op o; if (!emit(o)) return; }
      }
    }
  }
}

struct Init {
  Init() {
    auto &m = addMode<Case>("ops");
    m.gen = genCase; m.run = runCase; m.show = showCase; m.parse = parseCase; m.enumerator = enumerate;
  }
} init;

}  // namespace

int main(int argc, char **argv) { return harnessMain(argc, argv); }
