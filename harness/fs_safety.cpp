// C10 - FixedString never touches memory outside itself and stays well-formed, for ANY arguments.
// Generator + registration; the templated executor is compiled per capacity group (fs_safety_[a-d].cpp).
#include "fs_gen.hpp"

namespace fsx {
struct StatsSink : Sink {
  void cls(const char *name) override { verif::stats().cls(name); }
  void cls(const std::string &name) override { verif::stats().cls(name); }
  void nontrivial() override { verif::stats().markNontrivial(); }
  bool kf(const char *id) override { return verif::kf(id); }
  void excl(const char *id) override { verif::stats().excl(id); }
};
Sink &sink() { static StatsSink s; return s; }
}  // namespace fsx

namespace {
using namespace fsx;

std::string runCase(const Case &c) {
  verif::stats().cls("cap." + std::to_string(c.cap));
  verif::stats().cls(c.place ? "placement.canary_struct" : "placement.exact_heap");
  switch (groupOf(c.cap)) {
    case 'A': return runSafetyA(c);
    case 'B': return runSafetyB(c);
    case 'C': return runSafetyC(c);
    case 'D': return runSafetyD(c);
    default: return "capacity " + std::to_string(c.cap) + " is not instantiated";
  }
}

struct Init {
  Init() {
    auto &m = verif::addMode<Case>("ops");
    m.gen = []() { return genCase(false); };
    m.run = runCase;
    m.show = showCase;
    m.parse = parseCase;
    m.enumerator = enumerateSafety;   // capacities 1..2, all contents over {a,b}, single operations, argument grid incl. npos-1/npos
  }
} init;
}  // namespace

// Freed 64 KiB objects would pile up in ASan's default 256 MiB quarantine (> 1 GiB resident per shard);
// use-after-free detection is not what this harness relies on. Options given in ASAN_OPTIONS still win.
extern "C" const char *__asan_default_options() { return "quarantine_size_mb=16"; }

int main(int argc, char **argv) { return verif::harnessMain(argc, argv); }
