// C20 - Singleton<T>::instance() and ManagedThread keep their contract under generated schedules.
//
// One source, two builds: cfg "tsan" (ThreadSanitizer is the race monitor, the value oracle runs too)
// and cfg "plain" (-O2, value oracle at full speed).
//
// The schedule is part of the Case, so it shrinks and replays:
//   singleton      : K threads (2..16) leave a spin barrier together, each burns a generated number of
//                    spin iterations and performs the first access; the constructor of the singleton
//                    busy-waits a generated 0..200 us; rounds are separated by reset() (called by a
//                    generated number 1..3 of threads at once).
//   managed_thread : pthread_create is interposed in this binary (forwarding to the next definition,
//                    i.e. libtsan's interceptor or libc, via dlsym(RTLD_NEXT)). While a case asks for
//                    it, the creating thread is held d1 us after the real call returned, the new
//                    thread d2 us before its start routine runs; optionally the order is forced
//                    (child first / creator first) instead of merely delayed.
// Oracles use only facts proven by happens-before (acquire loads of flags the thread function set),
// never the clock. Clock based busy-waits only *shape* the schedule.
#include "common/verif.hpp"

#include "celma/common/managed_thread.hpp"
#include "celma/common/singleton.hpp"

#include <atomic>
#include <chrono>
#include <deque>
#include <thread>

#include <dlfcn.h>
#include <pthread.h>
#include <sched.h>
#include <time.h>

using namespace verif;

namespace {

// ------------------------------------------------------------------ schedule shaping helpers
#if defined(__SANITIZE_THREAD__)
constexpr unsigned kSpinsBeforeYield = 1000;    // instrumented atomics are ~10x slower
#else
constexpr unsigned kSpinsBeforeYield = 20000;   // ~10 us of pure spinning
#endif
constexpr unsigned kYieldsBeforeSleep = 200;
#if defined(__SANITIZE_THREAD__)
const char *const kBuild = "tsan_build.";
#else
const char *const kBuild = "plain_build.";
#endif

// Polling back-off for all waits of the harness: pure spinning first (a release is then seen
// within nanoseconds, so the generated spin counts decide the order), then yielding, finally
// 50 us naps so that an oversubscribed box is not burnt by waiting threads.
struct Backoff {
  unsigned k = 0;
  void pause() {
    ++k;
    if (k <= kSpinsBeforeYield) return;
    if (k <= kSpinsBeforeYield + kYieldsBeforeSleep) { sched_yield(); return; }
    timespec ts{0, 50000};
    nanosleep(&ts, nullptr);
  }
};

inline void spinIters(uint32_t n) {
  for (uint32_t i = 0; i < n; ++i) asm volatile("" : "+r"(i));
}

// Generated delay. Polls the clock and yields, so that a thread that happens to share the CPU
// (new threads start on their creator's CPU on some kernels) is not kept from running; the clock
// only shapes the schedule, it never takes part in a verdict.
inline void delayUs(uint32_t us) {
  if (us == 0) return;
  auto end = std::chrono::steady_clock::now() + std::chrono::microseconds(us);
  while (std::chrono::steady_clock::now() < end) sched_yield();
}

// wait until the flag is non-zero; spins first, then yields (the box may be oversubscribed)
template <class Order>
inline void waitFlag(const std::atomic<int> &f, Order mo) {
  // poll relaxed (cheap under ThreadSanitizer, which joins vector clocks on every acquire), then
  // read once more with the requested order: that load synchronises with the release store
  Backoff b;
  while (f.load(std::memory_order_relaxed) == 0) b.pause();
  (void)f.load(mo);
}

// Placement hint: move the calling thread to the slot-th allowed CPU and immediately give the
// scheduler its freedom back. Without it a freshly created thread that only spins and yields can
// stay on its creator's CPU for good (observed on this box: 8 threads + main on one CPU, so that
// nothing ever overlapped). Failure is ignored - the required-class guard of the driver notices
// if the interesting overlap classes are never reached.
struct Cpus {
  cpu_set_t full;
  std::vector<int> list;
  Cpus() {
    CPU_ZERO(&full);
    if (sched_getaffinity(0, sizeof full, &full) != 0) return;
    for (int i = 0; i < CPU_SETSIZE; ++i)
      if (CPU_ISSET(i, &full)) list.push_back(i);
  }
};
const Cpus &cpus() { static const Cpus c; return c; }

inline void placementHint(unsigned slot) {
  const Cpus &c = cpus();
  if (c.list.size() < 2) return;
  cpu_set_t one;
  CPU_ZERO(&one);
  CPU_SET(c.list[slot % c.list.size()], &one);
  if (sched_setaffinity(0, sizeof one, &one) == 0) sched_setaffinity(0, sizeof c.full, &c.full);
}

// sense-reversing spin barrier: releases all participants within a few hundred ns of each other,
// so that the generated spin counts - not the wake-up jitter of a futex - decide who comes first
struct SpinBarrier {
  std::atomic<uint32_t> count{0};
  std::atomic<uint32_t> gen{0};
  uint32_t n = 0;
  void wait() {
    uint32_t g = gen.load(std::memory_order_acquire);
    if (count.fetch_add(1, std::memory_order_acq_rel) + 1 == n) {
      count.store(0, std::memory_order_relaxed);
      gen.store(g + 1, std::memory_order_release);
    } else {
      Backoff b;
      while (gen.load(std::memory_order_relaxed) == g) b.pause();
      (void)gen.load(std::memory_order_acquire);
    }
  }
};

// ------------------------------------------------------------------ pthread_create interposition
enum Order : int { CHILD_FIRST = 0, TIMED = 1, CREATOR_FIRST = 2 };

struct Steer {
  uint32_t d1 = 0, d2 = 0;
  int order = TIMED;
  int childSlot = -1;   // >= 0: the new thread asks for that CPU slot first (placementHint)
  // gates; deliberately relaxed: they steer, they must not add happens-before edges that would
  // hide a race from ThreadSanitizer
  std::atomic<int> fnStarted{0};   // set by the thread function when it runs
  std::atomic<int> ctorDone{0};    // set by the creating thread when the ManagedThread constructor returned
};

// set by the thread that is about to construct a ManagedThread; consumed by the next pthread_create
// of that same thread (std::thread calls pthread_create synchronously in the constructing thread)
thread_local Steer *tSteer = nullptr;

struct Trampoline {
  void *(*fn)(void *);
  void *arg;
  Steer *steer;
};

void *trampoline(void *p) {
  Trampoline t = *static_cast<Trampoline *>(p);
  delete static_cast<Trampoline *>(p);
  if (t.steer->childSlot >= 0) placementHint(static_cast<unsigned>(t.steer->childSlot));
  if (t.steer->order == CREATOR_FIRST) waitFlag(t.steer->ctorDone, std::memory_order_relaxed);
  delayUs(t.steer->d2);
  return t.fn(t.arg);
}

std::atomic<uint64_t> gSteeredCreates{0};

}  // namespace

extern "C" int pthread_create(pthread_t *thread, const pthread_attr_t *attr, void *(*fn)(void *), void *arg) {
  using RealFn = int (*)(pthread_t *, const pthread_attr_t *, void *(*)(void *), void *);
  static RealFn real = reinterpret_cast<RealFn>(dlsym(RTLD_NEXT, "pthread_create"));
  if (real == nullptr) { fputs("mt_helpers: cannot resolve the real pthread_create\n", stderr); _exit(2); }
  Steer *s = tSteer;
  if (s == nullptr) return real(thread, attr, fn, arg);
  tSteer = nullptr;
  Trampoline *t = new Trampoline{fn, arg, s};
  int rc = real(thread, attr, trampoline, t);
  if (rc != 0) { delete t; return rc; }
  gSteeredCreates.fetch_add(1, std::memory_order_relaxed);
  if (s->order == CHILD_FIRST) waitFlag(s->fnStarted, std::memory_order_relaxed);
  delayUs(s->d1);
  return rc;
}

namespace {

// weighted choice of an index that shrinks towards index 0 (gen::weightedElement does not shrink)
inline size_t pickIdx(std::initializer_list<unsigned> weights) {
  unsigned total = 0;
  for (unsigned w : weights) total += w;
  unsigned v = *range<unsigned>(0, total - 1);
  size_t i = 0;
  for (unsigned w : weights) {
    if (v < w) return i;
    v -= w;
    ++i;
  }
  return 0;
}

// A schedule-dependent failure is proven by a single execution (the oracle only judges points fixed by
// happens-before), but the driver wants to see it again from the replay file. While replaying or
// shrinking, a case is therefore executed up to `replay_runs` times and fails if any execution fails.
template <class Case, class F>
std::string repeatWhenFrozen(const Case &c, F once) {
  long n = stats().frozen ? opt("replay_runs", 25) : 1;
  for (long i = 0; i < n; ++i) {
    std::string msg = once(c);
    if (!msg.empty()) return msg;
  }
  return "";
}

// ====================================================================== (a) Singleton
std::atomic<uint64_t> gCtors{0}, gDtors{0};
std::atomic<uint32_t> gEntered{0};          // threads that are in (or one instruction before) instance()
std::atomic<uint32_t> gInsideAtCtorEnd{0};  // gEntered when the constructor finished = threads inside
                                            // instance() while the object did not exist yet

class Probe : public celma::common::Singleton<Probe> {
  friend class celma::common::Singleton<Probe>;

public:
  ~Probe() override { gDtors.fetch_add(1, std::memory_order_relaxed); }
  int tag() const { return mTag; }
  uint64_t check() const { return mCheck; }

protected:
  Probe(int tag, uint32_t sleepUs) {
    gCtors.fetch_add(1, std::memory_order_relaxed);
    mTag = tag;
    delayUs(sleepUs);
    // written last and with plain stores: a reader that got the object without proper publication
    // is a data race ThreadSanitizer sees, and may see a wrong value
    mCheck = 0x5eed0000ULL + static_cast<uint64_t>(tag);
    gInsideAtCtorEnd.store(gEntered.load(std::memory_order_relaxed), std::memory_order_relaxed);
  }

private:
  int mTag = 0;
  uint64_t mCheck = 0;
};

struct SingRound {
  uint32_t ctorUs = 0;
  uint32_t resetters = 1;           // threads calling reset() at the same time, 1..3
  std::vector<uint32_t> spin;       // per thread, size K
};
struct SingCase {
  uint32_t k = 2;
  uint32_t cpuBase = 0;             // placement hint: main asks for CPU slot cpuBase, worker t for cpuBase+1+t
  std::vector<SingRound> rounds;
};

struct Slot {
  const Probe *first = nullptr, *second = nullptr;
  int tag = 0;
  uint64_t check = 0;
  char pad[64];
};

std::string runSingletonOnce(const SingCase &c) {
  auto &st = stats();
  const uint32_t K = c.k;
  Probe::reset();
  SpinBarrier bar;
  bar.n = K + 1;
  std::vector<Slot> slots(K);
  const SingRound *cur = nullptr;
  int curTag = 0;
  size_t curRound = 0;
  bool quit = false;

  placementHint(c.cpuBase);
  auto worker = [&](uint32_t t) {
    placementHint(c.cpuBase + 1 + t);
    for (;;) {
      bar.wait();                                   // A: round published (or quit)
      if (quit) return;
      const SingRound &r = *cur;
      const int tag = curTag;
      const uint32_t ctorUs = r.ctorUs;
      spinIters(r.spin[t]);
      gEntered.fetch_add(1, std::memory_order_relaxed);
      // instance() is a member template: callers that pass their arguments in different forms use different
      // instantiations of it. In every second round the threads mix three forms (lvalues, temporaries, wider types);
      // the contract - one object, everybody gets it - does not depend on how the first caller spelled its arguments.
      const int form = (curRound & 1) ? static_cast<int>((t + curRound) % 3) : 0;
      Probe &p = form == 0 ? Probe::instance(tag, ctorUs)
                 : form == 1 ? Probe::instance(int(tag), uint32_t(ctorUs))
                             : Probe::instance(static_cast<long>(tag), static_cast<unsigned long>(ctorUs));
      Slot &s = slots[t];
      s.first = &p;
      s.tag = p.tag();
      s.check = p.check();
      Probe &q = Probe::instance(-1, 0u);           // later access: arguments are ignored
      s.second = &q;
      bar.wait();                                   // B: everybody has the object
      bar.wait();                                   // C: main has judged; reset phase
      if (t < r.resetters) {
        spinIters(r.spin[t] & 0xff);
        Probe::reset();
      }
      bar.wait();                                   // D: reset done
    }
  };

  std::vector<std::thread> threads;
  threads.reserve(K);
  for (uint32_t t = 0; t < K; ++t) threads.emplace_back(worker, t);

  std::string msg;
  bool overlapSeen = false;
  for (size_t ri = 0; ri < c.rounds.size() && msg.empty(); ++ri) {
    const SingRound &r = c.rounds[ri];
    std::string where = "round " + std::to_string(ri) + ": ";
    cur = &r;
    curTag = static_cast<int>(1000 + ri);
    curRound = ri;
    if ((ri & 1) && K >= 2) st.cls("singleton.mixed_call_forms");
    gEntered.store(0, std::memory_order_relaxed);
    gInsideAtCtorEnd.store(0, std::memory_order_relaxed);
    const uint64_t ctors0 = gCtors.load(), dtors0 = gDtors.load();
    bar.wait();   // A
    bar.wait();   // B
    const uint64_t ctors = gCtors.load() - ctors0;
    if (ctors != 1) msg = where + std::to_string(ctors) + " constructions for one first access of " + std::to_string(K) + " threads";
    for (uint32_t t = 0; t < K && msg.empty(); ++t) {
      const Slot &s = slots[t];
      if (s.first != slots[0].first) msg = where + "thread " + std::to_string(t) + " got a different object than thread 0";
      else if (s.second != s.first) msg = where + "thread " + std::to_string(t) + ": second instance() call returned another object";
      else if (s.tag != curTag) msg = where + "thread " + std::to_string(t) + " read tag " + std::to_string(s.tag) + " from the object, expected " + std::to_string(curTag) + " (stale or half-built object)";
      else if (s.check != 0x5eed0000ULL + static_cast<uint64_t>(curTag)) msg = where + "thread " + std::to_string(t) + " saw an incompletely constructed object";
    }
    if (msg.empty() && gDtors.load() != dtors0) msg = where + "object destroyed during the access phase";
    const uint32_t inside = gInsideAtCtorEnd.load(std::memory_order_relaxed);
    st.cls("singleton.rounds");
    st.cls(std::string(kBuild) + "singleton.rounds");
    if (inside >= 2) {
      st.cls("singleton.overlap_ge2_threads_inside_before_object_exists");
      st.cls(std::string(kBuild) + "singleton.rounds_with_overlap_ge2");
      overlapSeen = true;
    }
    if (inside >= K) st.cls("singleton.overlap_all_threads");
    if (inside < K) st.cls("singleton.some_thread_on_fast_path");
    if (inside <= 1) st.cls("singleton.no_overlap");
    if (r.ctorUs == 0) st.cls("singleton.ctor_sleep_0");
    if (r.resetters >= 2) st.cls("singleton.concurrent_reset");
    bar.wait();   // C
    bar.wait();   // D
    const uint64_t dtors = gDtors.load() - dtors0;
    if (msg.empty() && dtors != 1) msg = where + std::to_string(dtors) + " destructions after reset() by " + std::to_string(r.resetters) + " thread(s), expected 1";
  }
  quit = true;
  bar.wait();     // A (quit)
  for (auto &t : threads) t.join();
  Probe::reset();
  st.cls(K == 2 ? "singleton.k.2" : K <= 4 ? "singleton.k.3_4" : K <= 8 ? "singleton.k.5_8" : "singleton.k.9_16");
  if (overlapSeen) st.markNontrivial();
  return msg;
}

std::string runSingleton(const SingCase &c) { return repeatWhenFrozen(c, runSingletonOnce); }

std::string showSingleton(const SingCase &c) {
  Writer w;
  w.tag("singleton").u(c.k).u(c.cpuBase).u(c.rounds.size()).nl();
  for (auto &r : c.rounds) {
    w.tag("round").u(r.ctorUs).u(r.resetters);
    for (auto v : r.spin) w.u(v);
    w.nl();
  }
  return w.str();
}
SingCase parseSingleton(const std::string &text) {
  Reader r(text);
  SingCase c;
  if (r.tag() != "singleton") throw std::runtime_error("not a singleton case");
  c.k = static_cast<uint32_t>(r.u());
  if (c.k < 1 || c.k > 64) throw std::runtime_error("thread count out of range");
  c.cpuBase = static_cast<uint32_t>(r.u());
  size_t n = r.u();
  for (size_t i = 0; i < n; ++i) {
    SingRound ro;
    r.tag();
    ro.ctorUs = static_cast<uint32_t>(r.u());
    ro.resetters = static_cast<uint32_t>(r.u());
    if (ro.resetters < 1 || ro.resetters > c.k) throw std::runtime_error("resetters out of range");
    for (uint32_t t = 0; t < c.k; ++t) ro.spin.push_back(static_cast<uint32_t>(r.u()));
    c.rounds.push_back(ro);
  }
  return c;
}

rc::Gen<SingCase> genSingleton() {
  return rc::gen::exec([]() {
    SingCase c;
    c.k = *rc::gen::weightedOneOf<uint32_t>({{3, just<uint32_t>(2)}, {3, range<uint32_t>(3, 4)},
                                             {3, range<uint32_t>(5, 8)}, {2, range<uint32_t>(9, 16)}});
    c.cpuBase = *range<uint32_t>(0, 63);
    size_t rounds = *range<size_t>(1, static_cast<size_t>(opt("maxrounds", 8)));
    for (size_t i = 0; i < rounds; ++i) {
      SingRound r;
      r.ctorUs = *rc::gen::weightedOneOf<uint32_t>({{3, just<uint32_t>(0)}, {4, range<uint32_t>(1, 10)},
                                                    {2, range<uint32_t>(11, 60)}, {1, range<uint32_t>(61, 200)}});
      r.resetters = static_cast<uint32_t>(1 + pickIdx({6, 2, 2}));
      if (r.resetters > c.k) r.resetters = c.k;
      // spin profile of the round: everybody at once / small skew / wide skew
      int profile = static_cast<int>(pickIdx({3, 4, 3}));
      for (uint32_t t = 0; t < c.k; ++t) {
        uint32_t s = 0;
        if (profile == 1) s = *range<uint32_t>(0, 200);
        else if (profile == 2) s = *rc::gen::weightedOneOf<uint32_t>({{1, just<uint32_t>(0)}, {2, range<uint32_t>(0, 2000)},
                                                                      {2, range<uint32_t>(0, 20000)}, {1, range<uint32_t>(0, 200000)}});
        r.spin.push_back(s);
      }
      c.rounds.push_back(r);
    }
    return c;
  });
}

// ====================================================================== (b) ManagedThread
struct MtItem {
  uint32_t d1 = 0;        // us the creating thread is held after the real pthread_create returned
  uint32_t d2 = 0;        // us the new thread is held before its start routine
  uint32_t obs = 0;       // us between observing "started" and the second isActive() sample
  int order = TIMED;      // CHILD_FIRST: creator held until the function runs; CREATOR_FIRST: child held until the constructor returned
  bool blocking = true;   // function waits for the release (false: returns at once; only the joined state is judged)
  bool joinByDtor = false;
  bool spread = false;    // new thread first asks for a CPU of its own (else it starts where the kernel puts it)
};
struct MtCase {
  bool observerThread = false;   // samples taken by a separate thread instead of the creating one
  uint32_t cpuBase = 0;          // placement hints: creator slot cpuBase, observer cpuBase+1, thread i cpuBase+2+i
  std::vector<MtItem> items;
};

struct ItemState {
  Steer steer;
  std::atomic<int> started{0}, release{0}, finished{0};
  std::atomic<celma::common::ManagedThread *> pub{nullptr};
  std::unique_ptr<celma::common::ManagedThread> mt;
  bool fnBeforeCtorDone = false;   // measured: function started before the constructor had returned
  int sample1 = -1, sample2 = -1;  // isActive() right after "started" was observed / obs us later
};

std::string runManagedOnce(const MtCase &c) {
  auto &st = stats();
  const size_t n = c.items.size();
  std::deque<ItemState> items(n);

  auto fn = [&items, &c](int idx) {
    ItemState &s = items[static_cast<size_t>(idx)];
    s.fnBeforeCtorDone = s.steer.ctorDone.load(std::memory_order_relaxed) == 0;
    s.steer.fnStarted.store(1, std::memory_order_relaxed);
    s.started.store(1, std::memory_order_release);
    if (c.items[static_cast<size_t>(idx)].blocking) waitFlag(s.release, std::memory_order_acquire);
    s.finished.store(1, std::memory_order_release);
  };

  placementHint(c.cpuBase);
  auto observe = [&items, &c, n](bool ownThread) {
    if (ownThread) placementHint(c.cpuBase + 1);
    for (size_t i = 0; i < n; ++i) {
      ItemState &s = items[i];
      celma::common::ManagedThread *mt;
      Backoff b;
      while (s.pub.load(std::memory_order_relaxed) == nullptr) b.pause();
      mt = s.pub.load(std::memory_order_acquire);
      waitFlag(s.started, std::memory_order_acquire);
      // proven: the function has started (acquire of its release store); it cannot have finished if it blocks
      s.sample1 = mt->isActive() ? 1 : 0;
      delayUs(c.items[i].obs);
      s.sample2 = mt->isActive() ? 1 : 0;
    }
  };

  std::thread observer;
  if (c.observerThread) observer = std::thread(observe, true);   // created before any steering is armed

  uint64_t early = 0;
  const uint64_t steered0 = gSteeredCreates.load(std::memory_order_relaxed);
  for (size_t i = 0; i < n; ++i) {
    ItemState &s = items[i];
    const MtItem &it = c.items[i];
    s.steer.d1 = it.d1;
    s.steer.d2 = it.d2;
    s.steer.order = it.order;
    s.steer.childSlot = it.spread ? static_cast<int>(c.cpuBase + 2 + i) : -1;
    tSteer = &s.steer;
    s.mt.reset(new celma::common::ManagedThread(fn, static_cast<int>(i)));
    tSteer = nullptr;
    s.steer.ctorDone.store(1, std::memory_order_relaxed);
    early += s.mt->isActive() ? 1 : 0;   // unproven point: value not judged, the access is (TSan)
    s.pub.store(s.mt.get(), std::memory_order_release);
  }
  if (c.observerThread) observer.join();
  else observe(false);

  std::string msg;
  for (size_t i = 0; i < n; ++i) {
    ItemState &s = items[i];
    const MtItem &it = c.items[i];
    std::string where = "thread " + std::to_string(i) + ": ";
    if (it.blocking && msg.empty()) {
      if (s.sample1 != 1) msg = where + "isActive() false although the thread function has started and is not yet released";
      else if (s.sample2 != 1) msg = where + "isActive() false " + std::to_string(it.obs) + " us after the function started, before it was released";
    }
    s.release.store(1, std::memory_order_release);
    if (it.joinByDtor) {
      s.mt.reset();   // documented: the destructor joins
      if (s.finished.load(std::memory_order_acquire) != 1 && msg.empty()) msg = where + "destructor returned before the thread function finished";
    } else {
      s.mt->join();
      if (s.finished.load(std::memory_order_acquire) != 1 && msg.empty()) msg = where + "join() returned before the thread function finished";
      if (s.mt->isActive() && msg.empty()) msg = where + "isActive() true after the function returned and the thread was joined";
      if (s.mt->joinable() && msg.empty()) msg = where + "joinable() after join()";
      s.mt.reset();
    }
  }
  // statistics (main thread only; all threads are joined)
  bool nontrivial = false;
  for (size_t i = 0; i < n; ++i) {
    const MtItem &it = c.items[i];
    st.cls("mt.threads");
    st.cls(std::string(kBuild) + "mt.threads");
    if (items[i].fnBeforeCtorDone) st.cls(std::string(kBuild) + "mt.function_ran_before_constructor_returned");
    if (it.order == TIMED) {
      st.cls(it.d1 > it.d2 ? "mt.timed.d1_gt_d2" : it.d2 > it.d1 ? "mt.timed.d2_gt_d1" : "mt.timed.d1_eq_d2");
      if (it.d1 != it.d2) nontrivial = true;
    } else {
      st.cls(it.order == CHILD_FIRST ? "mt.forced.child_first" : "mt.forced.creator_first");
      nontrivial = true;
    }
    st.cls(items[i].fnBeforeCtorDone ? "mt.measured.function_ran_before_constructor_returned"
                                     : "mt.measured.function_ran_after_constructor_returned");
    if (!it.blocking) st.cls("mt.nonblocking_function");
    if (it.joinByDtor) st.cls("mt.join_by_destructor");
    if (it.spread) st.cls("mt.child_on_other_cpu_hint");
  }
  if (c.observerThread) st.cls("mt.observer_thread");
  // evidence that the interposed pthread_create really was on the path (in both builds)
  st.cls(std::string(kBuild) + "mt.pthread_create_steered", gSteeredCreates.load(std::memory_order_relaxed) - steered0);
  if (early) st.cls("mt.early_sample_true", early);
  if (nontrivial) st.markNontrivial();
  return msg;
}

std::string runManaged(const MtCase &c) { return repeatWhenFrozen(c, runManagedOnce); }

std::string showManaged(const MtCase &c) {
  Writer w;
  w.tag("managed_thread").u(c.items.size()).u(c.observerThread ? 1 : 0).u(c.cpuBase).nl();
  for (auto &it : c.items)
    w.tag("thread").u(it.d1).u(it.d2).u(it.obs).u(static_cast<uint64_t>(it.order)).u(it.blocking ? 1 : 0).u(it.joinByDtor ? 1 : 0).u(it.spread ? 1 : 0).nl();
  return w.str();
}
MtCase parseManaged(const std::string &text) {
  Reader r(text);
  MtCase c;
  if (r.tag() != "managed_thread") throw std::runtime_error("not a managed_thread case");
  size_t n = r.u();
  c.observerThread = r.u() != 0;
  c.cpuBase = static_cast<uint32_t>(r.u());
  for (size_t i = 0; i < n; ++i) {
    MtItem it;
    r.tag();
    it.d1 = static_cast<uint32_t>(r.u());
    it.d2 = static_cast<uint32_t>(r.u());
    it.obs = static_cast<uint32_t>(r.u());
    it.order = static_cast<int>(r.u());
    if (it.order < 0 || it.order > 2) throw std::runtime_error("order out of range");
    it.blocking = r.u() != 0;
    it.joinByDtor = r.u() != 0;
    it.spread = r.u() != 0;
    c.items.push_back(it);
  }
  return c;
}

rc::Gen<uint32_t> genDelay() {
  // 0..500 us as planned; one in 25 delays is long (up to 4 ms): on a loaded box a new thread can need
  // milliseconds to get a CPU, and then only such a delay still makes "d1 > d2" mean "child first"
  return rc::gen::weightedOneOf<uint32_t>({{6, just<uint32_t>(0)}, {8, range<uint32_t>(1, 30)},
                                           {6, range<uint32_t>(31, 150)}, {4, range<uint32_t>(151, 500)},
                                           {1, range<uint32_t>(501, 4000)}});
}

rc::Gen<MtCase> genManaged() {
  return rc::gen::exec([]() {
    MtCase c;
    c.observerThread = pickIdx({2, 1}) == 1;
    c.cpuBase = *range<uint32_t>(0, 63);
    size_t n = 1 + pickIdx({5, 3, 1});
    for (size_t i = 0; i < n; ++i) {
      MtItem it;
      // 0 = child first so that shrinking moves towards the deterministic ordering
      it.order = static_cast<int>(pickIdx({2, 7, 2}));   // CHILD_FIRST, TIMED, CREATOR_FIRST
      it.d1 = *genDelay();
      it.d2 = *genDelay();
      it.obs = *rc::gen::weightedOneOf<uint32_t>({{3, just<uint32_t>(0)}, {4, range<uint32_t>(1, 50)}, {1, range<uint32_t>(51, 300)}});
      it.blocking = pickIdx({6, 1}) == 0;
      it.joinByDtor = pickIdx({4, 1}) == 1;
      it.spread = pickIdx({1, 1}) == 1;
      c.items.push_back(it);
    }
    return c;
  });
}

struct Init {
  Init() {
    auto &s = addMode<SingCase>("singleton");
    s.gen = genSingleton; s.run = runSingleton; s.show = showSingleton; s.parse = parseSingleton;
    auto &m = addMode<MtCase>("managed_thread");
    m.gen = genManaged; m.run = runManaged; m.show = showManaged; m.parse = parseManaged;
  }
} init;

}  // namespace

int main(int argc, char **argv) { return harnessMain(argc, argv); }
