// C11 executor instantiations for capacity group C (see FS_CAPS_C in fs_common.hpp).
#define FS_NO_RAPIDCHECK
#include "fs_exec.hpp"

namespace fsx {
std::string runModelC(const Case &c) {
  switch (c.cap) {
#define X(n) case n: { Exec<n, true> e(c); return e.run(); }
    FS_CAPS_C(X)
#undef X
    default: break;
  }
  return "capacity is not instantiated";
}
}  // namespace fsx
