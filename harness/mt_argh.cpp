// C09 - independent handlers can be used concurrently.
// T threads, each with its own generated configuration and command line, construct their handler and evaluate it
// repeatedly; every result must equal the result of the same work done alone; ThreadSanitizer watches the library.
#include "argh/gen.hpp"

#include <atomic>
#include <thread>

using namespace verif;
using namespace argh;

namespace {

struct Work { Config cfg; Line line; RealInput in; bool broken = false; unsigned spin = 0; bool usage = false; };
// in.envBody (if not empty): the first words of the line, delivered through an environment variable of the thread's own
struct Case { std::vector<Work> work; unsigned repeats = 1; };

std::string showCase(const Case &c) {
  Writer w;
  w.tag("mt_argh").u(c.repeats).u(c.work.size()).nl();
  for (auto &wk : c.work) {
    w.tag("thread").u(wk.broken).u(wk.spin);
    if (!wk.in.envBody.empty()) w.s(wk.in.envBody);
    w.nl();
    writeConfig(w, wk.cfg);
    writeLine(w, wk.line);
    writeWords(w, "argv", wk.in.argv);
  }
  return w.str();
}
Case parseCase(const std::string &t) {
  Reader r(t);
  Case c;
  r.tag(); c.repeats = static_cast<unsigned>(r.u());
  size_t n = r.u();
  for (size_t i = 0; i < n; ++i) {
    Work wk;
    r.tag(); wk.broken = r.u(); wk.spin = static_cast<unsigned>(r.u());
    if (r.peek() != "config") wk.in.envBody = r.s();
    wk.cfg = readConfig(r);
    wk.line = readLine(r);
    wk.in.argv = readWords(r);
    c.work.push_back(wk);
  }
  return c;
}

std::string describe(const RealResult &r) { return r.threw ? "exception '" + r.what + "'" : "success"; }

std::string runCaseInner(const Case &c);

// environment variables are process state: they are set before any thread exists and removed after the last one ended;
// every thread reads a variable of its own (checkEnvVarArgs(name))
std::string runCase(const Case &cc) {
  Case c = cc;
  for (size_t t = 0; t < c.work.size(); ++t) {
    RealInput &in = c.work[t].in;
    in.prepared = true;
    if (in.envBody.empty()) continue;
    in.haveEnv = true;
    in.envName = "VERIF_MT_ENV_" + std::to_string(t);
    setenv(in.envName.c_str(), in.envBody.c_str(), 1);
  }
  std::string r = runCaseInner(c);
  for (auto &wk : c.work) if (wk.in.haveEnv) unsetenv(wk.in.envName.c_str());
  return r;
}

std::string runCaseInner(const Case &c) {
  auto &st = stats();
  const size_t T = c.work.size();
  // what every thread would observe running alone
  std::vector<RealResult> alone(T);
  for (size_t t = 0; t < T; ++t) alone[t] = runReal(c.work[t].cfg, c.work[t].in);
  for (size_t t = 0; t < T; ++t)
    if (alone[t].setupThrew) return "thread " + std::to_string(t) + ": library refused the configuration: " + alone[t].what;
  std::vector<std::string> problems(T);
  std::atomic<unsigned> ready{0};
  std::atomic<bool> go{false};
  std::vector<std::thread> threads;
  for (size_t t = 0; t < T; ++t) {
    threads.emplace_back([&, t]() {
      ready.fetch_add(1);
      while (!go.load(std::memory_order_acquire)) std::this_thread::yield();
      for (volatile unsigned s = 0; s < c.work[t].spin; ++s) {}
      for (unsigned rep = 0; rep < c.repeats; ++rep) {
        RealResult r = runReal(c.work[t].cfg, c.work[t].in);
        if (!problems[t].empty()) continue;
        if (r.threw != alone[t].threw) problems[t] = "repetition " + std::to_string(rep) + ": " + describe(r) + ", alone: " + describe(alone[t]);
        else if (!r.stdException) problems[t] = "non-std exception";
        else if (!r.threw) {
          std::string d = compareStates(c.work[t].cfg, alone[t].state, r.state);
          if (!d.empty()) problems[t] = "repetition " + std::to_string(rep) + ": destinations differ from the sequential run: " + d;
        }
      }
    });
  }
  while (ready.load() < T) std::this_thread::yield();
  // the threads start like a fresh process: process-wide library state (the Groups singleton that Handler::usage()
  // consults) does not exist yet, so their first accesses race
  resetGlobalState();
  go.store(true, std::memory_order_release);
  for (auto &th : threads) th.join();
  for (size_t t = 0; t < T; ++t)
    if (!problems[t].empty()) {
      std::string argv;
      for (auto &w : c.work[t].in.argv) argv += "[" + w + "] ";
      return "thread " + std::to_string(t) + " of " + std::to_string(T) + " (argv " + argv + "): " + problems[t];
    }
  // classification
  std::set<char> seps;
  size_t withConstraints = 0, withLists = 0;
  for (auto &wk : c.work) {
    bool lists = false;
    for (auto &u : wk.line) if (u.arg >= 0 && isContainer(slotKinds()[wk.cfg.args[u.arg].slot])) { lists = true; seps.insert(effectiveSep(wk.cfg.args[u.arg], slotKinds()[wk.cfg.args[u.arg].slot])); }
    if (lists) ++withLists;
    bool cons = !wk.cfg.hcs.empty();
    for (auto &a : wk.cfg.args) if (!a.constraints.empty()) cons = true;
    if (cons) ++withConstraints;
    if (wk.broken) st.cls("mt.broken_line");
    if (wk.in.haveEnv) st.cls("mt.environment_source");
    if (wk.broken && !wk.line.empty() && wk.line.back().keyText.empty()) st.cls("mt.outcome_depends_on_cardinality");
    if (std::find(wk.in.argv.begin(), wk.in.argv.end(), "--help") != wk.in.argv.end()) st.cls("mt.usage_printed");
  }
  st.cls("mt.threads", T);
  st.cls("mt.evaluations", T * c.repeats);
  if (seps.size() >= 2) st.cls("mt.different_list_separators");
  if (withConstraints >= 2) st.cls("mt.concurrent_constraints");
  if (T >= 8) st.cls("mt.eight_or_more_threads");
  if (withLists >= 2 && (seps.size() >= 2 || withConstraints >= 2)) st.markNontrivial();
  return "";
}

rc::Gen<Case> genCase() {
  return rc::gen::exec([]() {
    Case c;
    size_t T = *rc::gen::weightedOneOf<size_t>({{4, range<size_t>(2, 4)}, {3, range<size_t>(5, 8)}, {2, range<size_t>(9, 16)}});
    c.repeats = *range<unsigned>(1, static_cast<unsigned>(opt("max_repeats", 30)));
    Profile pf;
    pf.checks = pf.formats = pf.cardinality = pf.argConstraints = pf.handlerConstraints = pf.mandatory = true;
    pf.maxArgs = 5;
    for (size_t t = 0; t < T; ++t) {
      Work wk;
      for (int attempt = 0; attempt < 6; ++attempt) {
        wk.cfg = genConfig(pf);
        // force at least one container with its own separator into most configurations
        if (wk.cfg.args.empty()) continue;
        wk.line = genValidLine(wk.cfg, pf);
        if (!wk.line.empty() && evalModel(wk.cfg, wk.line).verdict == ModelResult::ACCEPT) break;
        wk.line.clear();
      }
      if (wk.line.empty()) { Work d; d.cfg = Config(); continue; }
      for (auto &a : wk.cfg.args) if (isContainer(slotKinds()[a.slot]) && !isKeyValue(slotKinds()[a.slot]) && pick(60)) a.listSep = ",;:|/+"[t % 6];
      // the separator change keeps the line valid (elements never contain separator characters)
      const int variant = *range<int>(0, 99);
      if (variant < 15) {
        // a rule-breaking line: an unknown key
        Use u; u.keyText = "zz" + std::to_string(t); wk.line.push_back(u); wk.broken = true;
      } else if (variant < 35) {
        // a line whose outcome depends on the cardinality bookkeeping: a single-value argument used a second time
        std::vector<size_t> cands;
        for (size_t i = 0; i < wk.line.size(); ++i) {
          const Use &u = wk.line[i];
          if (u.arg < 0 || !u.hasValue) continue;
          const ArgDef &a = wk.cfg.args[u.arg];
          if (isScalar(slotKinds()[a.slot]) && a.cardKind == CARD_DEFAULT && a.spec != "-" && !a.optionalValue) cands.push_back(i);
        }
        if (!cands.empty()) {
          Line longer = wk.line;
          longer.push_back(wk.line[oneOf(cands)]);
          if (evalModel(wk.cfg, longer).verdict == ModelResult::REJECT) { wk.line = longer; wk.broken = true; }
        }
      }
      // the first words of some lines come from an environment variable of the thread's own (read mode = cardinality not
      // counted for them; the flag that says so belongs to the handler)
      size_t envUses = 0;
      if (!wk.broken && wk.line.size() >= 2 && pick(35)) envUses = *range<size_t>(1, wk.line.size() - 1);
      if (envUses) {
        Line first(wk.line.begin(), wk.line.begin() + static_cast<long>(envUses));
        std::string body;
        bool ok = true;
        for (auto &w : spell(wk.cfg, first, SpellOptions())) {
          if (w.empty()) { ok = false; break; }
          if (!body.empty()) body += ' ';
          for (char ch : w) { if (ch == ' ' || ch == '\'' || ch == '"' || ch == '\\') body += '\\'; body += ch; }
        }
        // a positional word or an open value list must not be continued by the first argv word
        const Use &lastEnv = first.back();
        if (lastEnv.arg < 0 || wk.cfg.args[lastEnv.arg].multiValue || !lastEnv.hasValue || wk.line[envUses].arg < 0 || wk.cfg.args[wk.line[envUses].arg].spec == "-") ok = false;
        if (ok) wk.in.envBody = body; else envUses = 0;
      }
      wk.in.argv = {"prog" + std::to_string(t)};
      { Line rest(wk.line.begin() + static_cast<long>(envUses), wk.line.end()); for (auto &w : spell(wk.cfg, rest, SpellOptions())) wk.in.argv.push_back(w); }
      // some threads also print their usage (into their own stream): Handler::usage() consults the process-wide
      // Groups singleton, the only state that independent handlers share
      if (pick(25)) {
        bool clash = false;
        for (auto &a : wk.cfg.args) if (a.shortKey == 'h' || a.longKey == "help") clash = true;
        if (!clash) { wk.cfg.flags |= F_HELP_LONG; wk.in.argv.insert(wk.in.argv.begin() + 1, "--help"); wk.usage = true; }
      }
      wk.spin = *range<unsigned>(0, 3000);
      c.work.push_back(wk);
    }
    return c;
  });
}

struct Init {
  Init() {
    auto &m = addMode<Case>("threads");
    m.gen = genCase; m.run = runCase; m.show = showCase; m.parse = parseCase;
  }
} init;

}  // namespace

int main(int argc, char **argv) { return harnessMain(argc, argv); }
