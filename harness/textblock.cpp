// C17 - TextBlock keeps the words, respects indentation and width.
#include "common/verif.hpp"

#include "celma/format/text_block.hpp"

using namespace verif;

namespace {

struct Case {
  int indent = 0;
  int width = 20;
  bool indentFirst = true;
  std::string text;
};

std::vector<std::string> split(const std::string &s, char sep) {
  std::vector<std::string> r;
  std::string cur;
  for (char c : s) {
    if (c == sep) { r.push_back(cur); cur.clear(); }
    else cur += c;
  }
  r.push_back(cur);
  return r;
}
std::vector<std::string> words(const std::string &line) {
  std::vector<std::string> r;
  for (auto &w : split(line, ' ')) if (!w.empty()) r.push_back(w);
  return r;
}

std::string runCase(const Case &c) {
  auto &st = stats();
  std::ostringstream os;
  celma::format::TextBlock tb(c.indent, c.width, c.indentFirst);
  tb.format(os, c.text);
  const std::string out = os.str();

  // input structure
  struct InLine { std::vector<std::string> w; bool hasNN = false; bool anyDash = false; bool firstDashFits = false; };
  std::vector<InLine> in;
  for (auto &l : split(c.text, '\n')) {
    InLine il;
    bool first = true;
    for (auto &w : words(l)) {
      if (first) {
        first = false;
        il.firstDashFits = w != "nn" && w[0] == '-' && c.indent + static_cast<int>(w.size()) + 1 <= c.width;
      }
      if (w == "nn") { il.hasNN = true; continue; }
      if (w[0] == '-') il.anyDash = true;
      il.w.push_back(w);
    }
    in.push_back(il);
  }
  // output structure
  auto olines = split(out, '\n');
  if (out.empty()) olines.clear();   // nothing printed = no output line at all
  struct OutWord { std::string w; size_t line; };
  std::vector<OutWord> ow;
  for (size_t j = 0; j < olines.size(); ++j)
    for (auto &w : words(olines[j])) ow.push_back({w, j});

  // 1. same words, same order, nothing split or joined ('nn' consumed)
  size_t k = 0;
  std::vector<int> firstOut(in.size(), -1), lastOut(in.size(), -1);
  std::vector<int> lineOwner(olines.size(), -1);   // which input line the first word of an output line belongs to
  for (size_t i = 0; i < in.size(); ++i)
    for (auto &w : in[i].w) {
      if (k >= ow.size()) return "output has fewer words than the input (lost: \"" + w + "\")";
      if (ow[k].w != w) return "word #" + std::to_string(k) + " is \"" + ow[k].w + "\" in the output, \"" + w + "\" in the input";
      if (firstOut[i] < 0) firstOut[i] = static_cast<int>(ow[k].line);
      lastOut[i] = static_cast<int>(ow[k].line);
      if (lineOwner[ow[k].line] < 0) lineOwner[ow[k].line] = static_cast<int>(i);
      ++k;
    }
  if (k != ow.size()) return "output has more words than the input (extra: \"" + ow[k].w + "\")";

  // 2. an input newline always starts a new output line
  int prevLast = -1;
  for (size_t i = 0; i < in.size(); ++i) {
    if (firstOut[i] < 0) continue;
    if (prevLast >= 0 && firstOut[i] <= prevLast)
      return "input line " + std::to_string(i) + " continues on the output line of the previous input line";
    prevLast = lastOut[i];
  }

  // 3. indentation, 4. width
  bool wrapped = false;
  for (size_t j = 0; j < olines.size(); ++j) {
    const std::string &l = olines[j];
    const bool noIndentLine = (j == 0 && !c.indentFirst);
    size_t lead = 0;
    while (lead < l.size() && l[lead] == ' ') ++lead;
    const size_t nwords = words(l).size();
    if (!noIndentLine) {
      if (lead < static_cast<size_t>(c.indent) && !(nwords == 0 && false))
        return "output line " + std::to_string(j) + " does not start with the indentation of " + std::to_string(c.indent);
      if (nwords > 0) {
        size_t extra = lead - c.indent;
        int owner = lineOwner[j];
        const InLine &il = in[owner];
        bool continuation = static_cast<int>(j) != firstOut[owner];
        if (extra != 0 && extra != 2) return "output line " + std::to_string(j) + " is indented by " + std::to_string(lead);
        if (!il.anyDash && extra != 0) return "output line " + std::to_string(j) + " of a non-list line is indented by " + std::to_string(lead);
        if (il.firstDashFits && continuation && extra != 2)
          return "continuation line " + std::to_string(j) + " of a dash list line is not indented by indent+2";
        if (il.firstDashFits && !continuation && extra != 0)
          return "first line " + std::to_string(j) + " of a dash list line is indented by " + std::to_string(lead);
        if (continuation && !il.hasNN) wrapped = true;
      }
    } else if (nwords > 0 && lead != 0) {
      return "un-indented first line starts with blanks";
    }
    size_t eff = l.size() + (noIndentLine ? c.indent : 0);
    if (nwords >= 2 && eff > static_cast<size_t>(c.width))
      return "output line " + std::to_string(j) + " holds " + std::to_string(nwords) + " words and is " + std::to_string(eff) + " long, width " + std::to_string(c.width);
  }
  bool special = in.size() > 1;
  for (auto &il : in) if (il.hasNN || il.anyDash) special = true;
  if (wrapped) st.cls("wrap");
  if (in.size() > 1) st.cls("embedded_newline");
  for (auto &il : in) { if (il.hasNN) st.cls("nn"); if (il.firstDashFits) st.cls("dash_line"); }
  if (wrapped && special) st.markNontrivial();
  return "";
}

std::string showCase(const Case &c) {
  Writer w;
  w.tag("textblock").u(c.indent).u(c.width).u(c.indentFirst).s(c.text).nl();
  return w.str();
}
Case parseCase(const std::string &t) {
  Reader r(t);
  Case c;
  r.tag();
  c.indent = static_cast<int>(r.u()); c.width = static_cast<int>(r.u()); c.indentFirst = r.u() != 0; c.text = r.s();
  return c;
}

rc::Gen<Case> genCase() {
  return rc::gen::exec([]() {
    Case c;
    c.indent = *range<int>(0, 12);
    c.width = c.indent + *range<int>(5, 40);
    c.indentFirst = *rc::gen::arbitrary<bool>();
    int nlines = *range<int>(1, 6);
    const std::string alpha = "abcdefghijklmnopqrstuvwxyzABCXYZ0123456789.,;:!?()-_/";
    for (int l = 0; l < nlines; ++l) {
      if (l > 0) c.text += (*range<int>(0, 9) == 0) ? "\n\n" : "\n";
      int nw = *range<int>(0, 15);
      bool dashLine = *range<int>(0, 3) == 0;
      for (int wi = 0; wi < nw; ++wi) {
        if (wi > 0) c.text += ' ';
        int kind = *range<int>(0, 11);
        if (kind == 0) { c.text += "nn"; continue; }
        int maxLen = c.width - c.indent + 3;
        int len = (kind <= 2) ? *range<int>(1, maxLen) : *range<int>(1, 8);
        std::string w;
        for (int i = 0; i < len; ++i) w += alpha[*range<size_t>(0, alpha.size() - 1)];
        if ((wi == 0 && dashLine) || kind == 3) w[0] = '-';
        if (w == "nn") w = "nm";
        c.text += w;
      }
    }
    return c;
  });
}

// exhaustive: vocabulary {a, bbb, ccccc, -d, nn}, 1..5 words, every separator pattern (blank / newline),
// indent {0,2}, width {indent+5, indent+8}, both first-line modes
void enumerate(const std::function<bool(const Case &)> &cb) {
  const char *voc[] = {"a", "bbb", "ccccc", "-d", "nn"};
  for (int n = 1; n <= 5; ++n) {
    int combos = 1;
    for (int i = 0; i < n; ++i) combos *= 5;
    for (int wsel = 0; wsel < combos; ++wsel)
      for (int seps = 0; seps < (1 << (n - 1)); ++seps) {
        std::string text;
        int x = wsel;
        for (int i = 0; i < n; ++i) {
          if (i > 0) text += ((seps >> (i - 1)) & 1) ? '\n' : ' ';
          text += voc[x % 5];
          x /= 5;
        }
        for (int indent : {0, 2})
          for (int wadd : {5, 8})
            for (int first = 0; first < 2; ++first) {
              Case c;
              c.indent = indent; c.width = indent + wadd; c.indentFirst = first != 0; c.text = text;
              if (!cb(c)) return;
            }
      }
  }
}

struct Init {
  Init() {
    auto &m = addMode<Case>("format");
    m.gen = genCase; m.run = runCase; m.show = showCase; m.parse = parseCase; m.enumerator = enumerate;
  }
} init;

}  // namespace

int main(int argc, char **argv) { return harnessMain(argc, argv); }
