// argh engine - the only translation unit that includes Celma's prog_args headers:
// builds a real Handler (or a Groups set-up) from a plain Config, evaluates an argv, extracts the
// destination variables into the generic Val representation.
#include "model.hpp"

#include "celma/prog_args.hpp"
#include "celma/prog_args/groups.hpp"
#include "celma/container/dynamic_bitset.hpp"

#include <array>
#include <bitset>
#include <deque>
#include <forward_list>
#include <list>
#include <map>
#include <optional>
#include <queue>
#include <set>
#include <stack>
#include <sys/stat.h>
#include <tuple>
#include <unordered_map>
#include <unordered_set>

namespace argh {

namespace cpa = celma::prog_args;
using celma::prog_args::Handler;

namespace {

struct Pool {
  bool f[4] = {false, false, false, false};
  int i[4] = {0, 0, 0, 0};
  long l[2] = {0, 0};
  unsigned u[2] = {0, 0};
  double d[2] = {0, 0};
  std::string s[4];
  std::optional<int> oi[2];
  std::optional<std::string> os[2];
  std::vector<int> vi[2];
  std::vector<std::string> vs;
  std::list<int> li;
  std::deque<int> dq;
  std::set<int> si;
  std::multiset<int> msi;
  std::unordered_set<int> usi;
  std::forward_list<int> fl;
  std::stack<int> st;
  std::queue<int> qu;
  std::priority_queue<int> pq;
  std::array<int, 3> arr = {{0, 0, 0}};
  int carr[3] = {0, 0, 0};
  std::tuple<int, std::string, int> tup{0, "", 0};
  std::bitset<10> bs;
  std::vector<bool> vb;
  celma::container::DynamicBitset dbs{0};
  std::map<int, std::string> mis;
  std::multimap<int, std::string> mmis;
  std::unordered_map<std::string, int> umsi;
};

int toInt(const std::string &s) { return static_cast<int>(strtol(s.c_str(), nullptr, 10)); }
std::pair<std::string, std::string> splitKV(const std::string &e) { auto p = e.find('\x1f'); return {e.substr(0, p), e.substr(p + 1)}; }

// slot index within its kind
int instanceOf(int slot) {
  const auto &sk = slotKinds();
  int n = 0;
  for (int i = 0; i < slot; ++i) if (sk[i] == sk[slot]) ++n;
  return n;
}

void setInitial(Pool &p, int slot, const Val &v) {
  const int kind = slotKinds()[slot], k = instanceOf(slot);
  switch (kind) {
    case K_FLAG: p.f[k] = v.b; break;
    case K_INT: p.i[k] = toInt(v.s); break;
    case K_LONG: p.l[k] = strtol(v.s.c_str(), nullptr, 10); break;
    case K_UINT: p.u[k] = static_cast<unsigned>(strtoul(v.s.c_str(), nullptr, 10)); break;
    case K_DOUBLE: p.d[k] = strtod(v.s.c_str(), nullptr); break;
    case K_STRING: p.s[k] = v.s; break;
    case K_OPT_INT: if (v.has) p.oi[k] = toInt(v.s); else p.oi[k].reset(); break;
    case K_OPT_STRING: if (v.has) p.os[k] = v.s; else p.os[k].reset(); break;
    case K_VEC_INT: p.vi[k].clear(); for (auto &e : v.elems) p.vi[k].push_back(toInt(e)); break;
    case K_VEC_STRING: p.vs = v.elems; break;
    case K_LIST_INT: p.li.clear(); for (auto &e : v.elems) p.li.push_back(toInt(e)); break;
    case K_DEQUE_INT: p.dq.clear(); for (auto &e : v.elems) p.dq.push_back(toInt(e)); break;
    case K_SET_INT: p.si.clear(); for (auto &e : v.elems) p.si.insert(toInt(e)); break;
    case K_MULTISET_INT: p.msi.clear(); for (auto &e : v.elems) p.msi.insert(toInt(e)); break;
    case K_USET_INT: p.usi.clear(); for (auto &e : v.elems) p.usi.insert(toInt(e)); break;
    case K_FWDLIST_INT: p.fl.clear(); for (auto it = v.elems.rbegin(); it != v.elems.rend(); ++it) p.fl.push_front(toInt(*it)); break;
    case K_STACK_INT: while (!p.st.empty()) p.st.pop(); for (auto &e : v.elems) p.st.push(toInt(e)); break;
    case K_QUEUE_INT: while (!p.qu.empty()) p.qu.pop(); for (auto &e : v.elems) p.qu.push(toInt(e)); break;
    case K_PQUEUE_INT: while (!p.pq.empty()) p.pq.pop(); for (auto &e : v.elems) p.pq.push(toInt(e)); break;
    case K_ARRAY3: for (int j = 0; j < 3; ++j) p.arr[j] = toInt(v.elems[j]); break;
    case K_CARRAY3: for (int j = 0; j < 3; ++j) p.carr[j] = toInt(v.elems[j]); break;
    case K_TUPLE_ISI: p.tup = std::make_tuple(toInt(v.elems[0]), v.elems[1], toInt(v.elems[2])); break;
    case K_BITSET10: for (size_t j = 0; j < 10; ++j) p.bs[j] = j < v.bits.size() && v.bits[j]; break;
    case K_VECBOOL: p.vb = v.bits; break;
    case K_DYNBITSET: p.dbs = celma::container::DynamicBitset(v.bits); if (v.bits.empty()) p.dbs = celma::container::DynamicBitset(0); break;
    case K_MAP_IS: p.mis.clear(); for (auto &e : v.elems) { auto kv = splitKV(e); p.mis.insert({toInt(kv.first), kv.second}); } break;
    case K_MULTIMAP_IS: p.mmis.clear(); for (auto &e : v.elems) { auto kv = splitKV(e); p.mmis.insert({toInt(kv.first), kv.second}); } break;
    case K_UMAP_SI: p.umsi.clear(); for (auto &e : v.elems) { auto kv = splitKV(e); p.umsi.insert({kv.first, toInt(kv.second)}); } break;
  }
}

template <class C> void elemsOf(const C &c, Val &v) { for (auto &e : c) v.elems.push_back(std::to_string(e)); }

Val extract(const Pool &p, int slot) {
  const int kind = slotKinds()[slot], k = instanceOf(slot);
  Val v;
  switch (kind) {
    case K_FLAG: v.b = p.f[k]; break;
    case K_INT: v.s = std::to_string(p.i[k]); break;
    case K_LONG: v.s = std::to_string(p.l[k]); break;
    case K_UINT: v.s = std::to_string(p.u[k]); break;
    case K_DOUBLE: v.s = canonDouble(p.d[k]); break;
    case K_STRING: v.s = p.s[k]; break;
    case K_OPT_INT: v.has = p.oi[k].has_value(); if (v.has) v.s = std::to_string(*p.oi[k]); break;
    case K_OPT_STRING: v.has = p.os[k].has_value(); if (v.has) v.s = *p.os[k]; break;
    case K_VEC_INT: elemsOf(p.vi[k], v); break;
    case K_VEC_STRING: v.elems = p.vs; break;
    case K_LIST_INT: elemsOf(p.li, v); break;
    case K_DEQUE_INT: elemsOf(p.dq, v); break;
    case K_SET_INT: elemsOf(p.si, v); break;
    case K_MULTISET_INT: elemsOf(p.msi, v); break;
    case K_USET_INT: elemsOf(p.usi, v); break;
    case K_FWDLIST_INT: elemsOf(p.fl, v); break;
    case K_STACK_INT: { auto c = p.st; while (!c.empty()) { v.elems.insert(v.elems.begin(), std::to_string(c.top())); c.pop(); } break; }
    case K_QUEUE_INT: { auto c = p.qu; while (!c.empty()) { v.elems.push_back(std::to_string(c.front())); c.pop(); } break; }
    case K_PQUEUE_INT: { auto c = p.pq; while (!c.empty()) { v.elems.push_back(std::to_string(c.top())); c.pop(); } break; }
    case K_ARRAY3: for (int j = 0; j < 3; ++j) v.elems.push_back(std::to_string(p.arr[j])); break;
    case K_CARRAY3: for (int j = 0; j < 3; ++j) v.elems.push_back(std::to_string(p.carr[j])); break;
    case K_TUPLE_ISI: v.elems = {std::to_string(std::get<0>(p.tup)), std::get<1>(p.tup), std::to_string(std::get<2>(p.tup))}; break;
    case K_BITSET10: for (size_t j = 0; j < 10; ++j) v.bits.push_back(p.bs[j]); break;
    case K_VECBOOL: v.bits = p.vb; if (v.bits.size() > 100000) v.bits.resize(100000); break;
    case K_DYNBITSET: for (size_t j = 0; j < p.dbs.size() && j < 100000; ++j) v.bits.push_back(p.dbs.test(j)); break;
    case K_MAP_IS: for (auto &e : p.mis) v.elems.push_back(std::to_string(e.first) + '\x1f' + e.second); break;
    case K_MULTIMAP_IS: for (auto &e : p.mmis) v.elems.push_back(std::to_string(e.first) + '\x1f' + e.second); break;
    case K_UMAP_SI: for (auto &e : p.umsi) v.elems.push_back(e.first + '\x1f' + std::to_string(e.second)); break;
  }
  if (kind == K_OPT_INT || kind == K_OPT_STRING) { /* has + s */ }
  else if (isScalar(kind)) v.has = false;
  canonicalise(kind, v);
  return v;
}

cpa::detail::TypedArgBase *makeDest(Pool &p, int slot) {
  const int kind = slotKinds()[slot], k = instanceOf(slot);
  const std::string name = std::string(kindName(kind)) + std::to_string(k);
  switch (kind) {
    case K_FLAG: return cpa::destination(p.f[k], name);
    case K_INT: return cpa::destination(p.i[k], name);
    case K_LONG: return cpa::destination(p.l[k], name);
    case K_UINT: return cpa::destination(p.u[k], name);
    case K_DOUBLE: return cpa::destination(p.d[k], name);
    case K_STRING: return cpa::destination(p.s[k], name);
    case K_OPT_INT: return cpa::destination(p.oi[k], name);
    case K_OPT_STRING: return cpa::destination(p.os[k], name);
    case K_VEC_INT: return cpa::destination(p.vi[k], name);
    case K_VEC_STRING: return cpa::destination(p.vs, name);
    case K_LIST_INT: return cpa::destination(p.li, name);
    case K_DEQUE_INT: return cpa::destination(p.dq, name);
    case K_SET_INT: return cpa::destination(p.si, name);
    case K_MULTISET_INT: return cpa::destination(p.msi, name);
    case K_USET_INT: return cpa::destination(p.usi, name);
    case K_FWDLIST_INT: return cpa::destination(p.fl, name);
    case K_STACK_INT: return cpa::destination(p.st, name);
    case K_QUEUE_INT: return cpa::destination(p.qu, name);
    case K_PQUEUE_INT: return cpa::destination(p.pq, name);
    case K_ARRAY3: return cpa::destination(p.arr, name);
    case K_CARRAY3: return cpa::destination(p.carr, name);
    case K_TUPLE_ISI: return cpa::destination(p.tup, name);
    case K_BITSET10: return cpa::destination(p.bs, name);
    case K_VECBOOL: return cpa::destination(p.vb, name);
    case K_DYNBITSET: return cpa::destination(p.dbs, name);
    case K_MAP_IS: return cpa::destination(p.mis, name);
    case K_MULTIMAP_IS: return cpa::destination(p.mmis, name);
    case K_UMAP_SI: return cpa::destination(p.umsi, name);
  }
  throw std::logic_error("bad kind");
}

int celmaFlags(int f) {
  int r = Handler::hfUsageCont;
  if (f & F_NO_ABBR) r |= Handler::hfNoAbbr;
  if (f & F_END_VALUES) r |= Handler::hfEndValues;
  if (f & F_HELP_SHORT) r |= Handler::hfHelpShort;
  if (f & F_HELP_LONG) r |= Handler::hfHelpLong;
  if (f & F_HELP_ARG) r |= Handler::hfHelpArg;
  if (f & F_HELP_ARG_FULL) r |= Handler::hfHelpArgFull;
  if (f & F_USAGE_HIDDEN) r |= Handler::hfUsageHidden;
  if (f & F_ARG_HIDDEN) r |= Handler::hfArgHidden;
  if (f & F_USAGE_DEPRECATED) r |= Handler::hfUsageDeprecated;
  if (f & F_ARG_DEPRECATED) r |= Handler::hfArgDeprecated;
  if (f & F_USAGE_SHORT) r |= Handler::hfUsageShort;
  if (f & F_USAGE_LONG) r |= Handler::hfUsageLong;
  if (f & F_LIST_ARG_VAR) r |= Handler::hfListArgVar;
  if (f & F_VERBOSE) r |= Handler::hfVerboseArgs;
  if (f & F_READ_PROG_ARG) r |= Handler::hfReadProgArg;
  if (f & F_ENV_VAR_ARGS) r |= Handler::hfEnvVarArgs;
  return r;
}

void defineArg(Handler &h, Pool &p, const Config &cfg, const ArgDef &a) {
  auto *t = h.addArgument(a.spec, makeDest(p, a.slot), a.desc.empty() ? std::string("description of ") + a.spec : a.desc);
  const int kind = slotKinds()[a.slot];
  // order matters for a few setters (value mode 'optional' needs clear-before-assign first)
  if (a.listSep) t->setListSep(a.listSep);
  if (!a.pairFormat.empty()) t->setPairFormat(a.pairFormat);
  if (a.clearFirst) t->setClearBeforeAssign();
  if (a.optionalValue) t->setValueMode(Handler::ValueMode::optional);
  if (a.multiValue) t->setTakesMultiValue();
  if (a.sort) t->setSortData();
  if (a.unique) t->setUniqueData(a.unique == 2);
  if (a.unsetFlag) t->unsetFlag();
  if (a.mandatory) t->setIsMandatory();
  if (a.hidden) t->setIsHidden();
  if (a.printDefault) t->setPrintDefault(a.printDefault == 1);
  if (a.deprecated) { if (a.replacedBy.empty()) t->setIsDeprecated(); else t->setReplacedBy(a.replacedBy); }
  switch (a.cardKind) {
    case CARD_NONE: t->setCardinality(); break;
    case CARD_MAX: t->setCardinality(cpa::cardinality_max(a.cardA)); break;
    case CARD_EXACT: t->setCardinality(cpa::cardinality_exact(a.cardA)); break;
    case CARD_RANGE: t->setCardinality(cpa::cardinality_range(a.cardA, a.cardB)); break;
    default: break;
  }
  for (auto &c : a.checks) {
    switch (c.type) {
      case CH_LOWER: t->addCheck(cpa::lower(toInt(c.a))); break;
      case CH_UPPER: t->addCheck(cpa::upper(toInt(c.a))); break;
      case CH_RANGE: t->addCheck(cpa::range(toInt(c.a), toInt(c.b))); break;
      case CH_VALUES: t->addCheck(cpa::values(c.a)); break;
      case CH_MINLEN: t->addCheck(cpa::minLength(static_cast<size_t>(toInt(c.a)))); break;
      case CH_MAXLEN: t->addCheck(cpa::maxLength(static_cast<size_t>(toInt(c.a)))); break;
      case CH_PATTERN: t->addCheck(cpa::pattern(c.a)); break;
    }
  }
  if (a.format == 1) t->addFormat(cpa::uppercase());
  if (a.format == 2) t->addFormat(cpa::lowercase());
  for (auto &pf : a.posFormats) t->addFormatPos(pf.first, pf.second == 1 ? cpa::uppercase() : cpa::lowercase());
  // constraints as written in the definition: key lists ("d;c"), the other argument named by its complete specification,
  // its short key or its long key
  std::vector<std::pair<int, std::string>> written;
  for (size_t ci = 0; ci < a.constraints.size(); ++ci) {
    const auto &ct = a.constraints[ci];
    const ArgDef &o = cfg.args[ct.second];
    const int style = ci < a.ctStyle.size() ? a.ctStyle[ci] : 0;
    std::string name = o.spec;
    if ((style & 3) == 1 && o.shortKey) name = std::string(1, o.shortKey);
    if ((style & 3) == 2 && !o.longKey.empty()) name = o.longKey;
    if ((style & 4) && !written.empty() && written.back().first == ct.first) written.back().second += ";" + name;
    else written.push_back({ct.first, name});
  }
  for (auto &wc : written) {
    if (wc.first == CT_REQUIRES) t->addConstraint(cpa::requiresArg(wc.second));
    else t->addConstraint(cpa::excludes(wc.second));
  }
  (void)kind;
}

void defineHandlerConstraint(Handler &h, const Config &cfg, const HConstraint &hc) {
  std::string list;
  for (int x : hc.args) { if (!list.empty()) list += ';'; list += cfg.args[x].spec; }
  switch (hc.type) {
    case HC_ALL_OF: h.addConstraint(cpa::all_of(list)); break;
    case HC_ANY_OF: h.addConstraint(cpa::any_of(list)); break;
    case HC_ONE_OF: h.addConstraint(cpa::one_of(list)); break;
    case HC_DIFFER: h.addConstraint(cpa::differ(list)); break;
    case HC_DISJOINT: h.addConstraint(cpa::disjoint(list)); break;
  }
}

std::string scratchDir() {
  const char *s = getenv("VERIF_SCRATCH");
  std::string d = s ? s : "/dev/shm";
  d += "/argh-" + std::to_string(getpid());
  mkdir(d.c_str(), 0755);
  return d;
}

std::string baseName(const std::string &p) { auto s = p.rfind('/'); return s == std::string::npos ? p : p.substr(s + 1); }

}  // namespace

void resetGlobalState() { cpa::Groups::reset(); }

RealResult runReal(const Config &cfg, const RealInput &in) {
  RealResult res;
  auto pool = std::make_unique<Pool>();
  for (auto &iv : cfg.initial) setInitial(*pool, iv.first, iv.second);
  std::ostringstream out, err;

  // sources (process-global state: environment, files - only touched when a case uses them, so that the
  // plain argv path can be run from several threads at once)
  const bool useSources = (in.haveFile || in.haveEnv) && !in.prepared;
  std::vector<std::string> argvWords = in.argv;
  if (argvWords.empty()) argvWords.push_back("prog");
  const std::string prog = baseName(argvWords[0]);
  std::string homeBefore, paFile, argFile, envName = in.envName;
  if (useSources) {
    static const std::string dir = scratchDir();
    homeBefore = getenv("HOME") ? getenv("HOME") : "";
    setenv("HOME", dir.c_str(), 1);
    const std::string paDir = dir + "/.progargs";
    paFile = paDir + "/" + prog + ".pa";
    argFile = dir + "/args.txt";
    mkdir(paDir.c_str(), 0755);
    unlink(paFile.c_str());
    unlink(argFile.c_str());
    if (in.haveFile) {
      // an argument file may name another one: "outer\x02inner" - the inner body goes to its own file and
      // the placeholder @INNER@ in the outer body is replaced by its path
      std::string outer = in.fileBody;
      const auto cut = outer.find('\x02');
      if (cut != std::string::npos) {
        const std::string innerFile = dir + "/inner-args.txt";
        { std::ofstream fi(innerFile, std::ios::binary); fi << outer.substr(cut + 1); }
        outer.erase(cut);
        for (auto p = outer.find("@INNER@"); p != std::string::npos; p = outer.find("@INNER@")) outer.replace(p, 7, innerFile);
      }
      std::ofstream f(in.fileViaArgument ? argFile : paFile, std::ios::binary);
      f << outer;
    }
    if (envName.empty()) { envName = prog; for (auto &c : envName) c = static_cast<char>(toupper(static_cast<unsigned char>(c))); }
    unsetenv(envName.c_str());
    if (in.haveEnv) setenv(envName.c_str(), in.envBody.c_str(), 1);
  }

  if (in.haveFile && in.fileViaArgument) {
    argvWords.insert(argvWords.begin() + 1, argFile);
    argvWords.insert(argvWords.begin() + 1, "--arg-file");
  }
  std::vector<char *> argv;
  for (auto &w : argvWords) argv.push_back(const_cast<char *>(w.c_str()));
  argv.push_back(nullptr);
  const int argc = static_cast<int>(argvWords.size());

  int flags = celmaFlags(cfg.flags);
  if (in.haveFile && !in.fileViaArgument) flags |= Handler::hfReadProgArg;
  if (in.haveEnv && in.envName.empty()) flags |= Handler::hfEnvVarArgs;

  bool setupDone = false;
  try {
    if (in.groupCount == 0) {
      Handler h(out, err, flags);
      if (in.haveEnv && !in.envName.empty()) h.checkEnvVarArgs(in.envName);
      if (in.haveFile && in.fileViaArgument) h.addArgumentFile("arg-file");
      // arguments marked inSubGroup live in a sub-group handler that is reached through "-G,--sub-group"
      bool anySub = false;
      for (auto &a : cfg.args) if (a.inSubGroup) anySub = true;
      std::unique_ptr<Handler> sub;
      if (anySub) sub = std::make_unique<Handler>(h, Handler::hfHelpShort | Handler::hfHelpLong);
      for (auto &a : cfg.args) defineArg(a.inSubGroup ? *sub : h, *pool, cfg, a);
      if (anySub) h.addArgument("G,sub-group", *sub, "arguments of the sub group");
      for (auto &hc : cfg.hcs) defineHandlerConstraint(h, cfg, hc);
      if (usageLineLength(cfg.flags)) h.setUsageLineLength(usageLineLength(cfg.flags));
      setupDone = true;
      h.evalArguments(argc, argv.data());
      if (in.usageAgain) { std::ostringstream again; again << h; res.out2 = again.str(); }
    } else {
      cpa::Groups::reset();
      // group level flags go to every member; the member flags we use are all in Groups2HandlerFlags or passed per handler
      auto &g = cpa::Groups::instance(out, err, Handler::hfUsageCont);
      std::vector<std::shared_ptr<Handler>> members;
      for (int m = 0; m < in.groupCount; ++m) members.push_back(g.getArgHandler("member" + std::to_string(m), flags & ~(Handler::hfReadProgArg | Handler::hfEnvVarArgs)));
      for (size_t i = 0; i < cfg.args.size(); ++i) defineArg(*members[in.groupOf[i]], *pool, cfg, cfg.args[i]);
      for (auto &hc : cfg.hcs) defineHandlerConstraint(*members[in.groupOf[hc.args[0]]], cfg, hc);
      setupDone = true;
      g.evalArguments(argc, argv.data());
    }
  } catch (const std::exception &e) {
    res.threw = true;
    res.what = e.what();
    res.exceptionType = typeid(e).name();
    res.setupThrew = !setupDone;
  } catch (...) {
    res.threw = true;
    res.stdException = false;
    res.what = "non-std exception";
    res.setupThrew = !setupDone;
  }
  if (in.groupCount != 0) cpa::Groups::reset();
  for (auto &a : cfg.args) res.state[a.slot] = extract(*pool, a.slot);
  for (auto &iv : cfg.initial) res.state[iv.first] = extract(*pool, iv.first);
  res.out = out.str();
  res.err = err.str();
  if (useSources) {
    unsetenv(envName.c_str());
    if (!homeBefore.empty()) setenv("HOME", homeBefore.c_str(), 1);
    unlink(paFile.c_str());
    unlink(argFile.c_str());
  }
  return res;
}

}  // namespace argh
