// argh engine - rapidcheck generators: configurations, valid abstract lines, spellings, rule-breaking mutations.
// Celma-free. All random choices are made here.
#pragma once

#include "model.hpp"

namespace argh {

using verif::just;
using verif::range;

struct Profile {
  bool checks = false, formats = false, cardinality = false, argConstraints = false, handlerConstraints = false;
  bool containers = true, containerOptions = true, multiValue = true, optionalValue = false;
  int multiValuePct = 40;   // share of the container arguments that take multiple values
  bool inertExtras = false;      // hidden / deprecated / display flags present but unused
  bool scalars = true, flagsArgs = true;
  bool mandatory = false;
  bool positional = false;       // one argument may be the positional one (key specification "-")
  int minArgs = 1, maxArgs = 6;
  int onlyKind = -1;             // C06: exactly one argument of this kind (-1: free choice)
  bool sourcesFlags = false;
};

inline bool pick(int percent) { return *range<int>(0, 99) < percent; }
template <class T> T oneOf(const std::vector<T> &v) { return v[*range<size_t>(0, v.size() - 1)]; }

inline const std::vector<std::string> &longVocabulary() {
  static const std::vector<std::string> v = {"in", "inp", "input", "input-file", "input-format", "out", "outp", "output",
                                             "verbose", "verb", "level", "name", "names", "count", "file", "force", "mode",
                                             "max", "max-size", "maxim", "dry-run", "dry", "quiet", "queue", "ab", "abc", "abcd"};
  return v;
}

// ---------------------------------------------------------------- key model (independent of ArgumentKey)
struct KeySet {
  std::vector<std::string> longs;   // every long key known to the handler (defined + built in)
  bool abbrev = true;
  // proper prefixes (length >= 2) of `key` that select it unambiguously
  std::vector<std::string> abbreviationsOf(const std::string &key) const {
    std::vector<std::string> r;
    if (!abbrev) return r;
    for (size_t n = 2; n < key.size(); ++n) {
      std::string p = key.substr(0, n);
      int matches = 0;
      for (auto &l : longs) if (l.compare(0, n, p) == 0) ++matches;
      if (matches == 1) r.push_back(p);
    }
    return r;
  }
};
inline KeySet keySetOf(const Config &c, bool withArgFile = false) {
  KeySet k;
  k.abbrev = !(c.flags & F_NO_ABBR);
  for (auto &a : c.args) if (!a.longKey.empty()) k.longs.push_back(a.longKey);
  for (auto &b : builtinLongKeys(c.flags)) k.longs.push_back(b);
  if (withArgFile) k.longs.push_back("arg-file");
  return k;
}

// a value that would be read as a key or control character when it stands alone
inline bool needsAttach(const std::string &t) { return (!t.empty() && t[0] == '-') || t == "(" || t == ")" || t == "!"; }

// ---------------------------------------------------------------- values
inline std::string genIntText(long long lo, long long hi) {
  // boundary biased within [lo, hi]
  std::vector<long long> cands = {lo, hi, 0, 1, -1, 7, 42, 100, -100, 12345};
  std::vector<long long> ok;
  for (auto c : cands) if (c >= lo && c <= hi) ok.push_back(c);
  int sel = *range<int>(0, 9);
  if (sel < 5 && !ok.empty()) return std::to_string(oneOf(ok));
  long long span = hi - lo;
  if (span < 0) span = 0;
  if (span > 2000 && sel < 8) {
    // near the low end / near zero
    long long base = (lo <= 0 && hi >= 0) ? 0 : lo;
    long long v = base + *range<long long>(-1000 < lo - base ? lo - base : -1000, 1000 > hi - base ? hi - base : 1000);
    return std::to_string(v);
  }
  return std::to_string(*rc::gen::resize(1000, rc::gen::inRange<long long>(lo, hi)) + (pick(50) && span > 0 ? 1 : 0));
}
inline std::string genString(int minLen, int maxLen, const std::string &alphabet) {
  int n = *range<int>(minLen, maxLen);
  std::string s;
  for (int i = 0; i < n; ++i) s += alphabet[*range<size_t>(0, alphabet.size() - 1)];
  return s;
}
inline const std::string &scalarAlphabet() { static const std::string a = "abcxyzABZ0189_-=.:/ ,+"; return a; }
inline const std::string &elemAlphabet() { static const std::string a = "abcxyzABZ0189_-=."; return a; }
inline std::string genDoubleText() {
  int whole = *range<int>(-1000, 1000);
  int eighths = *range<int>(0, 7);
  double d = whole + eighths / 8.0;
  char b[64];
  snprintf(b, sizeof b, "%.3f", d);
  std::string s = b;
  while (s.find('.') != std::string::npos && (s.back() == '0' || s.back() == '.')) { bool dot = s.back() == '.'; s.pop_back(); if (dot) break; }
  if (s == "-0") s = "0";
  return s;
}

// the numeric window the checks of an argument allow: [lo, hi]
inline void checkWindow(const ArgDef &a, long long &lo, long long &hi) {
  for (auto &c : a.checks) {
    long long v;
    if (c.type == CH_LOWER && parseIntIn(c.a, INT_MIN, INT_MAX, v)) lo = std::max(lo, v);
    if (c.type == CH_UPPER && parseIntIn(c.a, INT_MIN, INT_MAX, v)) hi = std::min(hi, v - 1);
    if (c.type == CH_RANGE) { if (parseIntIn(c.a, INT_MIN, INT_MAX, v)) lo = std::max(lo, v); if (parseIntIn(c.b, INT_MIN, INT_MAX, v)) hi = std::min(hi, v - 1); }
  }
}
inline const Check *findCheck(const ArgDef &a, int type) { for (auto &c : a.checks) if (c.type == type) return &c; return nullptr; }

// a valid element / scalar text for argument `a` (obeying its checks); `salt` makes values distinct where needed
inline std::string genValidText(const ArgDef &a, char type /* i, l, u, d, s, p */, bool element) {
  if (auto *vc = findCheck(a, CH_VALUES)) {
    auto items = splitList(vc->a, ',');
    return oneOf(items);
  }
  switch (type) {
    case 'i': case 'l': case 'u': {
      long long lo = type == 'u' ? 0 : type == 'l' ? -4000000000LL : INT_MIN, hi = type == 'u' ? UINT_MAX : type == 'l' ? 4000000000LL : INT_MAX;
      if (!a.checks.empty()) { lo = std::max<long long>(lo, INT_MIN); hi = std::min<long long>(hi, INT_MAX); }
      checkWindow(a, lo, hi);
      return genIntText(lo, hi);
    }
    case 'd': return genDoubleText();
    case 'p': {
      long long lo = 0, hi = 40;
      checkWindow(a, lo, hi);
      if (hi < 0) hi = 0;
      return std::to_string(*rc::gen::weightedOneOf<int>({{6, range<int>(0, static_cast<int>(std::min<long long>(9, hi)))}, {1, range<int>(0, static_cast<int>(hi))}}));
    }
    default: {
      if (auto *pc = findCheck(a, CH_PATTERN)) {
        std::string letters = genString(1, 4, "abcxyz"), digits = genString(1, 3, "0189");
        if (pc->a == "[0-9]+") return digits;
        if (pc->a == "[a-z]+") return letters;
        return letters + (pick(50) ? digits : "");
      }
      int mn = element ? 1 : 0, mx = 8;
      if (auto *c = findCheck(a, CH_MINLEN)) mn = std::max(mn, atoi(c->a.c_str()));
      if (auto *c = findCheck(a, CH_MAXLEN)) mx = std::min(mx, atoi(c->a.c_str()));
      if (mx < mn) mx = mn;
      std::string s = genString(mn, mx, element ? elemAlphabet() : scalarAlphabet());
      if (a.format == 0 && s.size() >= 2 && pick(10)) s[0] = '-';
      return s;
    }
  }
}
inline char scalarValueType(int kind) {
  switch (kind) {
    case K_INT: case K_OPT_INT: return 'i';
    case K_LONG: return 'l';
    case K_UINT: return 'u';
    case K_DOUBLE: return 'd';
    default: return 's';
  }
}

inline Val genInitial(int kind, bool forMandatory) {
  Val v = defaultVal(kind);
  if (forMandatory) return v;   // mandatory destinations carry no default content (DESIGN 2.8)
  ArgDef none;
  switch (kind) {
    case K_FLAG: v.b = pick(25); break;
    case K_INT: case K_LONG: case K_UINT: v.s = pick(30) ? v.s : genValidText(none, scalarValueType(kind), false); break;
    case K_DOUBLE: { std::string t = genDoubleText(); convertScalar(K_DOUBLE, t, v.s); break; }
    case K_STRING: v.s = pick(40) ? "" : genString(1, 6, "abcxyz019"); break;
    case K_OPT_INT: v.has = pick(40); if (v.has) v.s = genIntText(-50, 50); break;
    case K_OPT_STRING: v.has = pick(40); if (v.has) v.s = genString(0, 5, "abcxyz"); break;
    case K_ARRAY3: case K_CARRAY3: for (auto &e : v.elems) e = std::to_string(*range<int>(-3, 9)); break;
    case K_TUPLE_ISI: v.elems = {std::to_string(*range<int>(-5, 5)), genString(0, 3, "abc"), std::to_string(*range<int>(-5, 5))}; break;
    case K_BITSET10: for (size_t i = 0; i < 10; ++i) v.bits[i] = pick(20); break;
    case K_VECBOOL: case K_DYNBITSET: {
      int n = pick(50) ? 0 : *rc::gen::weightedOneOf<int>({{1, just<int>(1)}, {1, just<int>(2)}, {4, range<int>(3, 14)}});
      for (int i = 0; i < n; ++i) v.bits.push_back(pick(25));
      break;
    }
    case K_MAP_IS: case K_MULTIMAP_IS: case K_UMAP_SI: {
      int n = pick(50) ? 0 : *range<int>(1, 3);
      std::set<std::string> keys;
      for (int i = 0; i < n; ++i) {
        std::string k = kind == K_UMAP_SI ? genString(1, 2, "abc") : std::to_string(*range<int>(0, 6));
        if (kind != K_MULTIMAP_IS && !keys.insert(k).second) continue;
        std::string val = kind == K_UMAP_SI ? std::to_string(*range<int>(0, 9)) : genString(1, 3, "xyz");
        v.elems.push_back(k + '\x1f' + val);
      }
      break;
    }
    default: {   // sequence-like containers
      int n = pick(50) ? 0 : *range<int>(1, 4);
      for (int i = 0; i < n; ++i) {
        std::string e = kind == K_VEC_STRING ? genString(1, 4, "abcxyz") : std::to_string(*range<int>(-3, 12));
        if ((kind == K_SET_INT || kind == K_USET_INT) && std::find(v.elems.begin(), v.elems.end(), e) != v.elems.end()) continue;
        v.elems.push_back(e);
      }
      break;
    }
  }
  canonicalise(kind, v);
  return v;
}

// ---------------------------------------------------------------- configuration
inline std::string makeSpec(char shortKey, const std::string &longKey) {
  if (longKey.empty()) return pick(30) ? std::string("-") + shortKey : std::string(1, shortKey);
  if (!shortKey) return pick(30) ? "--" + longKey : longKey;
  switch (*range<int>(0, 3)) {
    case 0: return std::string(1, shortKey) + "," + longKey;
    case 1: return longKey + "," + std::string(1, shortKey);
    case 2: return std::string("-") + shortKey + ",--" + longKey;
    default: return "--" + longKey + ",-" + std::string(1, shortKey);
  }
}

inline int genFlags(const Profile &pf) {
  int f = 0;
  if (pick(20)) f |= F_NO_ABBR;
  if (pick(35)) f |= F_END_VALUES;
  if (pf.inertExtras) {
    for (int bit : {F_HELP_SHORT, F_HELP_LONG, F_HELP_ARG, F_HELP_ARG_FULL, F_USAGE_HIDDEN, F_ARG_HIDDEN, F_USAGE_DEPRECATED,
                    F_ARG_DEPRECATED, F_USAGE_SHORT, F_USAGE_LONG, F_LIST_ARG_VAR})
      if (pick(15)) f |= bit;
  }
  return f;
}

inline std::vector<int> kindsFor(const Profile &pf) {
  std::vector<int> k;
  if (pf.onlyKind >= 0) return {pf.onlyKind};
  if (pf.flagsArgs) k.push_back(K_FLAG);
  if (pf.scalars) for (int x = K_INT; x <= K_OPT_STRING; ++x) k.push_back(x);
  if (pf.containers) for (int x = K_VEC_INT; x < K_KINDS; ++x) k.push_back(x);
  return k;
}

inline void genContainerOptions(ArgDef &a, int kind, const Profile &pf) {
  if (!pf.containerOptions) return;
  const bool kv = isKeyValue(kind);
  if (pick(35)) {
    std::string seps = kv ? ";:|/+" : ",;:|/+";
    a.listSep = oneOf(std::vector<char>(seps.begin(), seps.end()));
  }
  if (kv && pick(30)) {
    std::vector<std::string> pfs = {"=", "-", "=[]", ",()", "={}"};
    std::string p = oneOf(pfs);
    char ls = a.listSep ? a.listSep : ';';
    if (p.find(ls) == std::string::npos) a.pairFormat = p;
  }
  if (kv && a.listSep == ',' ) a.listSep = 0;
  if (kv && a.pairFormat.empty() && a.listSep == ',') a.listSep = 0;
  if (pf.multiValue && pick(pf.multiValuePct)) a.multiValue = true;
  if ((isSeqLike(kind) || isBits(kind) || kv) && pick(30)) a.clearFirst = true;
  if (isSortable(kind) && pick(35)) a.sort = true;
  if ((hasIterators(kind) || kind == K_ARRAY3 || kind == K_CARRAY3 || kv) && pick(40)) a.unique = pick(75) ? 1 : 2;
  if (isBits(kind) && pick(25)) a.unsetFlag = true;
}

inline void genChecks(ArgDef &a, int kind) {
  const char et = isScalar(kind) ? scalarValueType(kind) : elemType(kind);
  if (et == 'i' || et == 'u' || et == 'l') {
    int sel = *range<int>(0, 4);
    int base = *range<int>(-20, 50);
    if (et == 'u' && base < 0) base = 0;
    if (sel == 0) a.checks.push_back({CH_LOWER, std::to_string(base), ""});
    else if (sel == 1) a.checks.push_back({CH_UPPER, std::to_string(base + 1 + *range<int>(0, 60)), ""});
    else if (sel == 2) a.checks.push_back({CH_RANGE, std::to_string(base), std::to_string(base + 1 + *range<int>(0, 40))});
    else if (sel == 3) { a.checks.push_back({CH_LOWER, std::to_string(base), ""}); a.checks.push_back({CH_UPPER, std::to_string(base + 1 + *range<int>(0, 30)), ""}); }
    else { std::string l; int n = *range<int>(1, 4); for (int i = 0; i < n; ++i) l += (i ? "," : "") + std::to_string(base + i * 3); a.checks.push_back({CH_VALUES, l, ""}); }
  } else if (et == 's') {
    int sel = *range<int>(0, 4);
    if (sel == 0) a.checks.push_back({CH_MINLEN, std::to_string(*range<int>(1, 4)), ""});
    else if (sel == 1) a.checks.push_back({CH_MAXLEN, std::to_string(*range<int>(1, 6)), ""});
    else if (sel == 2) { int mn = *range<int>(1, 3); a.checks.push_back({CH_MINLEN, std::to_string(mn), ""}); a.checks.push_back({CH_MAXLEN, std::to_string(mn + *range<int>(0, 4)), ""}); }
    else if (sel == 3) a.checks.push_back({CH_PATTERN, oneOf(patternVocabulary()), ""});
    else { std::vector<std::string> words = {"red", "green", "blue", "x", "on", "off"}; std::string l; int n = *range<int>(1, 4); for (int i = 0; i < n; ++i) l += (i ? "," : "") + words[(i * 2 + n) % words.size()]; a.checks.push_back({CH_VALUES, l, ""}); }
  } else if (et == 'p') {
    a.checks.push_back({CH_UPPER, std::to_string(*range<int>(5, 12)), ""});
  }
}

inline Config genConfig(const Profile &pf) {
  Config c;
  c.flags = genFlags(pf);
  const auto &sk = slotKinds();
  std::vector<int> kinds = kindsFor(pf);
  int n = *range<int>(pf.minArgs, pf.maxArgs);
  std::set<int> usedSlots;
  bool havePositional = false;
  std::set<char> usedShort;
  std::set<std::string> usedLong;
  for (char b : builtinShortKeys(c.flags)) usedShort.insert(b);
  for (auto &b : builtinLongKeys(c.flags)) usedLong.insert(b);
  // now and then a configuration that is mostly requires/excludes bookkeeping: 3-5 cheap arguments (flags first), 3-6
  // constraints among them, nothing that keeps an argument out of a relation
  const bool dense = pf.argConstraints && pf.onlyKind < 0 && pf.flagsArgs && pick(10);
  if (dense) { n = std::min(pf.maxArgs, *range<int>(3, 5)); havePositional = true; }
  // value constraints need two same-typed arguments: force such pairs now and then
  int forcePair = -1, forceCount = 2;
  std::set<int> forcedArgs;
  if (pf.handlerConstraints && pf.onlyKind < 0 && !dense) {
    int r = *range<int>(0, 99);
    if (r < 12) { forcePair = pick(50) ? K_INT : K_STRING; forceCount = *range<int>(2, 4); }   // differ over 2..4 arguments
    else if (r < 22) forcePair = K_VEC_INT;
    if (forcePair >= 0 && n < forceCount) n = forceCount;
  }
  for (int i = 0; i < n; ++i) {
    // pick a kind, then a free slot of that kind
    int kind = oneOf(kinds);
    const bool forced = forcePair >= 0 && i < forceCount;   // reserved for the value constraint: kept optional, visible, unrelated
    if (forced) kind = forcePair;
    else if (dense) kind = i < 4 ? K_FLAG : K_INT;
    else
    if (pf.onlyKind < 0 && pf.flagsArgs && pf.scalars && pick(45)) kind = pick(35) ? K_FLAG : oneOf(std::vector<int>{K_INT, K_STRING, K_INT, K_STRING, K_LONG, K_UINT, K_DOUBLE, K_OPT_INT, K_OPT_STRING});
    int slot = -1;
    for (size_t s = 0; s < sk.size(); ++s) if (sk[s] == kind && !usedSlots.count(static_cast<int>(s))) { slot = static_cast<int>(s); break; }
    if (slot < 0) continue;
    usedSlots.insert(slot);
    ArgDef a;
    a.slot = slot;
    // keys
    int form = *range<int>(0, 9);   // 0-2 short only, 3-5 long only, 6-9 both
    std::vector<char> freeShort;
    for (char ch = 'a'; ch <= 'z'; ++ch) if (!usedShort.count(ch)) freeShort.push_back(ch);
    std::vector<std::string> freeLong;
    for (auto &w : longVocabulary()) if (!usedLong.count(w)) freeLong.push_back(w);
    const bool positionalKind = kind == K_STRING || kind == K_INT || kind == K_VEC_STRING || kind == K_VEC_INT;
    if (pf.positional && !havePositional && positionalKind && pick(30)) {
      havePositional = true;
      a.spec = "-";   // the positional argument: receives the free values
    } else {
      if (form <= 2 || form >= 6) { a.shortKey = oneOf(freeShort); usedShort.insert(a.shortKey); }
      if (form >= 3) { a.longKey = oneOf(freeLong); usedLong.insert(a.longKey); }
      a.spec = makeSpec(a.shortKey, a.longKey);
    }
    // attributes
    if (isContainer(kind)) genContainerOptions(a, kind, pf);
    if (a.spec == "-") a.multiValue = false;
    if (pf.mandatory && kind != K_FLAG && !forced && !dense && pick(25)) a.mandatory = true;
    if (pf.checks && kind != K_FLAG && kind != K_DOUBLE && !isKeyValue(kind) && kind != K_TUPLE_ISI && pick(55)) genChecks(a, kind);
    if (pf.formats && (kind == K_STRING || kind == K_OPT_STRING || kind == K_VEC_STRING) && !findCheck(a, CH_PATTERN) && !findCheck(a, CH_VALUES) && pick(40)) a.format = pick(50) ? 1 : 2;
    if (pf.formats && (kind == K_VEC_STRING || kind == K_TUPLE_ISI) && !findCheck(a, CH_PATTERN) && !findCheck(a, CH_VALUES) && pick(45)) {
      // formatters for single value positions (addFormatPos)
      int np = *range<int>(1, 2);
      for (int j = 0; j < np; ++j) {
        int idx = kind == K_TUPLE_ISI ? *rc::gen::weightedElement<int>({{4, 1}, {1, 0}, {1, 2}}) : *range<int>(0, 5);
        bool dup = false;
        for (auto &x : a.posFormats) if (x.first == idx) dup = true;
        if (!dup) a.posFormats.push_back({idx, pick(50) ? 1 : 2});
      }
    }
    if (pf.cardinality && pick(40)) {
      if (isContainer(kind) && kind != K_TUPLE_ISI) {
        int sel = *range<int>(0, 3);
        if (sel == 0) { a.cardKind = CARD_MAX; a.cardA = *range<int>(1, 5); }
        else if (sel == 1 && !isFixed(kind)) { a.cardKind = CARD_EXACT; a.cardA = *range<int>(1, 4); }
        else if (sel == 2 && !isFixed(kind)) { a.cardKind = CARD_RANGE; a.cardA = *range<int>(1, 3); a.cardB = a.cardA + *range<int>(0, 3); }
        else a.cardKind = CARD_NONE;
      } else if (kind != K_TUPLE_ISI) {
        int sel = *range<int>(0, 2);
        if (sel == 0) a.cardKind = CARD_NONE;
        else { a.cardKind = CARD_MAX; a.cardA = *range<int>(1, 3); }
      }
    }
    if (forced) forcedArgs.insert(static_cast<int>(c.args.size()));
    c.args.push_back(a);
  }
  // initial contents
  for (auto &a : c.args) {
    Val iv = genInitial(sk[a.slot], a.mandatory);
    // initial content must not make a checked/unique configuration inconsistent with itself: keep it simple
    c.initial[a.slot] = iv;
  }
  // optional value mode: containers with clear-before-assign and non-empty initial content
  if (pf.optionalValue)
    for (auto &a : c.args) {
      int kind = sk[a.slot];
      if ((isSeqLike(kind) || isKeyValue(kind)) && a.clearFirst && !c.initial[a.slot].elems.empty() && !a.mandatory && !a.longKey.empty() && pick(50)) a.optionalValue = true;   // long key: a dash value can always be attached with '=' 
    }
  // inert extras: hidden / deprecated arguments that are never used on a valid line
  if (pf.inertExtras)
    for (size_t i = 0; i < c.args.size(); ++i) {
      auto &a = c.args[i];
      if (pick(15)) a.hidden = true;
      if (!a.mandatory && !forcedArgs.count(static_cast<int>(i)) && !dense && pick(12)) { a.deprecated = true; if (pick(50)) a.replacedBy = "--something-else"; }
    }
  // argument constraints (requires / excludes). Targets may be shared between several constraining arguments and an
  // argument may be source and target; 'requires' edges only go from a lower to a higher argument index (no cycles).
  // Arguments that take part are not available for handler constraints (inRelation).
  std::set<int> inRelation;
  auto freeArgs = [&]() { std::vector<int> v; for (size_t i = 0; i < c.args.size(); ++i) if (!inRelation.count(static_cast<int>(i)) && !c.args[i].deprecated && !c.args[i].mandatory) v.push_back(static_cast<int>(i)); return v; };
  if (pf.argConstraints) {
    int tries = dense ? *range<int>(3, 6) : *range<int>(0, 5);
    std::vector<int> cand;
    for (size_t i = 0; i < c.args.size(); ++i) if (!c.args[i].deprecated && !c.args[i].mandatory && !forcedArgs.count(static_cast<int>(i))) cand.push_back(static_cast<int>(i));
    for (int t = 0; t < tries && cand.size() >= 2; ++t) {
      int x = oneOf(cand);
      // now and then an argument that already has a constraint gets another one (key lists, several pending entries)
      if (pick(35)) { std::vector<int> holders; for (int q : cand) if (!c.args[q].constraints.empty()) holders.push_back(q); if (!holders.empty()) x = oneOf(holders); }
      // prefer a target that is already in a relation: shared targets are where the bookkeeping gets interesting
      std::vector<int> targets;
      if (!inRelation.empty() && pick(50)) for (int r : inRelation) if (std::find(cand.begin(), cand.end(), r) != cand.end()) targets.push_back(r);
      if (targets.empty()) targets = cand;
      int y = oneOf(targets);
      if (x == y) continue;
      int type = pick(50) ? CT_REQUIRES : CT_EXCLUDES;
      if (type == CT_REQUIRES && x > y) std::swap(x, y);
      bool dup = false;
      for (auto &ct : c.args[x].constraints) if (ct.second == y) dup = true;   // one constraint per ordered pair
      for (auto &ct : c.args[y].constraints) if (ct.second == x && (ct.first == CT_REQUIRES || type == CT_REQUIRES)) dup = true;
      if (dup) continue;
      c.args[x].constraints.push_back({type, y});
      // the way the constraint is written: other argument by complete specification / short key / long key; joined to the
      // previous constraint's key list
      {
        int style = *rc::gen::weightedElement<int>({{5, 0}, {2, 1}, {2, 2}});
        if (c.args[y].spec == "-") style = 0;
        if (c.args[x].constraints.size() >= 2 && c.args[x].constraints[c.args[x].constraints.size() - 2].first == type && pick(60)) style |= 4;
        c.args[x].ctStyle.resize(c.args[x].constraints.size() - 1, 0);
        c.args[x].ctStyle.push_back(style);
      }
      inRelation.insert(x); inRelation.insert(y);
    }
  }
  if (pf.handlerConstraints && !dense) {
    int tries = *range<int>(0, 2);
    if (forcePair >= 0 && tries == 0) tries = 1;
    for (int t = 0; t < tries; ++t) {
      auto fa = freeArgs();
      if (fa.size() < 2) break;
      int type = *range<int>(0, 4);
      if (forcePair >= 0 && t == 0) type = forcePair == K_VEC_INT ? HC_DISJOINT : HC_DIFFER;
      HConstraint hc;
      hc.type = type;
      if (type == HC_DIFFER) {
        // same-typed plain scalar slots
        std::map<int, std::vector<int>> byKind;
        for (int i : fa) { int k = sk[c.args[i].slot]; if (k == K_INT || k == K_STRING || k == K_LONG || k == K_UINT) byKind[k].push_back(i); }
        for (auto &bk : byKind) if (bk.second.size() >= 2 && hc.args.empty()) hc.args = bk.second;
        // the order in the constraint's list is independent of the definition order
        for (size_t j = hc.args.size(); j > 1; --j) std::swap(hc.args[j - 1], hc.args[*range<size_t>(0, j - 1)]);
      } else if (type == HC_DISJOINT) {
        std::vector<int> v;
        for (int i : fa) if (sk[c.args[i].slot] == K_VEC_INT) v.push_back(i);
        if (v.size() >= 2) hc.args = {v[0], v[1]};
      } else {
        size_t k = *range<size_t>(2, std::min<size_t>(3, fa.size()));
        std::vector<int> pool = fa;
        for (size_t j = 0; j < k; ++j) { size_t idx = *range<size_t>(0, pool.size() - 1); hc.args.push_back(pool[idx]); pool.erase(pool.begin() + static_cast<long>(idx)); }
      }
      if (hc.args.size() < 2) continue;
      for (int i : hc.args) inRelation.insert(i);
      c.hcs.push_back(hc);
    }
  }
  // disjoint: give the two containers disjoint initial contents
  for (auto &hc : c.hcs)
    if (hc.type == HC_DISJOINT) {
      for (int side = 0; side < 2; ++side) {
        Val &iv = c.initial[c.args[hc.args[side]].slot];
        for (auto &e : iv.elems) { long long v = strtoll(e.c_str(), nullptr, 10); v = v * 2 + side; e = std::to_string(v); }
      }
    }
  return c;
}

// ---------------------------------------------------------------- valid abstract lines
inline std::vector<std::string> genElems(const ArgDef &a, int kind, int minN, int maxN, int salt) {
  std::vector<std::string> e;
  int n = *range<int>(minN, maxN);
  const char et = elemType(kind);
  for (int i = 0; i < n; ++i) {
    if (et == 'k') {
      std::string pf = a.pairFormat.empty() ? std::string(",") : a.pairFormat;
      std::string k = kind == K_UMAP_SI ? genString(1, 2, "abc") : std::to_string(*range<int>(0, 8));
      std::string v = kind == K_UMAP_SI ? std::to_string(*range<int>(0, 99)) : genString(1, 3, "xyz01");
      std::string t = k + pf[0] + v;
      if (pf.size() == 3) t = pf[1] + t + pf[2];
      e.push_back(t);
    } else if (et == 't') {
      e.push_back(i % 3 == 1 ? genString(1, 4, "abcXYZ") : genIntText(-99, 99));
    } else if (et == 'p') {
      e.push_back(genValidText(a, 'p', true));
    } else if (et == 's') {
      e.push_back(genValidText(a, 's', true));
    } else {
      std::string t = genValidText(a, 'i', true);
      if (salt >= 0) { long long v = strtoll(t.c_str(), nullptr, 10) % 1000; t = std::to_string(v * 2 + salt); }
      e.push_back(t);
    }
  }
  return e;
}

// Cuts an element sequence into uses (repeated key) and, for multi-value arguments, free words.
// Cardinality: every use and every free word costs 1 (+1 per additional element), so the total cost equals the
// number of elements whatever the cut.
inline std::vector<Use> cutIntoUses(const ArgDef &a, int ai, const std::vector<std::string> &all, bool repeatOk) {
  std::vector<Use> out;
  size_t pos = 0;
  while (pos < all.size()) {
    size_t remaining = all.size() - pos;
    size_t take = remaining;
    if (pick(60)) take = *range<size_t>(1, remaining);
    Use x;
    x.arg = ai;
    x.hasValue = true;
    x.elems.assign(all.begin() + static_cast<long>(pos), all.begin() + static_cast<long>(pos + take));
    pos += take;
    // free words behind it
    while (a.multiValue && pos < all.size() && pick(50)) {
      // a free word cannot be attached to a key, so it must not look like a key or control character
      if (all[pos].empty() || all[pos][0] == '-' || all[pos] == "(" || all[pos] == ")" || all[pos] == "!") break;
      size_t t2 = *range<size_t>(1, all.size() - pos);
      x.free.push_back(std::vector<std::string>(all.begin() + static_cast<long>(pos), all.begin() + static_cast<long>(pos + t2)));
      pos += t2;
    }
    if (!repeatOk && pos < all.size()) {
      if (a.multiValue && !x.free.empty()) x.free.back().insert(x.free.back().end(), all.begin() + static_cast<long>(pos), all.end());
      else x.elems.insert(x.elems.end(), all.begin() + static_cast<long>(pos), all.end());
      pos = all.size();
    }
    out.push_back(x);
  }
  return out;
}

// Builds a rule-obeying abstract line for cfg (the model has the last word: callers check evalModel()).
inline Line genValidLine(const Config &c, const Profile &pf, int maxUses = 6) {
  const auto &sk = slotKinds();
  const size_t n = c.args.size();
  std::vector<bool> used(n, false);
  for (size_t i = 0; i < n; ++i) {
    if (c.args[i].deprecated) continue;
    used[i] = c.args[i].mandatory || pick(55);
  }
  // handler constraints
  for (auto &hc : c.hcs) {
    if (hc.type == HC_ALL_OF) { bool all = pick(70); for (int i : hc.args) used[i] = all; }
    else if (hc.type == HC_ANY_OF || hc.type == HC_ONE_OF) {
      int keep = (hc.type == HC_ONE_OF || pick(70)) ? oneOf(hc.args) : -1;
      for (int i : hc.args) used[i] = (i == keep);
    }
  }
  // argument constraints: closure over 'requires', then thin out excluded targets
  for (bool changed = true; changed;) {
    changed = false;
    for (size_t i = 0; i < n; ++i)
      for (auto &ct : c.args[i].constraints)
        if (used[i] && ct.first == CT_REQUIRES && !used[ct.second]) { used[ct.second] = true; changed = true; }
  }
  auto isRequired = [&](int y) { for (size_t i = 0; i < n; ++i) if (used[i]) for (auto &ct : c.args[i].constraints) if (ct.first == CT_REQUIRES && ct.second == y) return true; return false; };
  for (size_t i = 0; i < n; ++i)
    for (auto &ct : c.args[i].constraints)
      if (ct.first == CT_EXCLUDES && used[i] && used[ct.second] && !c.args[ct.second].mandatory && !isRequired(ct.second) && pick(50)) used[ct.second] = false;
  if (std::find(used.begin(), used.end(), true) == used.end()) {
    std::vector<int> cand;
    for (size_t i = 0; i < n; ++i) if (!c.args[i].deprecated) { bool inHc = false; for (auto &hc : c.hcs) if (hc.type != HC_DIFFER && hc.type != HC_DISJOINT && std::find(hc.args.begin(), hc.args.end(), static_cast<int>(i)) != hc.args.end()) inHc = true; if (!inHc && c.args[i].constraints.empty()) cand.push_back(static_cast<int>(i)); }
    if (!cand.empty()) used[oneOf(cand)] = true;
  }
  // order of argument blocks: random topological order of the "must come before" relation
  //   requires a->c : a (all its uses) before c;   excludes b->c, both used : c before b
  std::vector<int> order;
  {
    std::vector<int> nodes;
    for (size_t i = 0; i < n; ++i) if (used[i]) nodes.push_back(static_cast<int>(i));
    std::set<std::pair<int, int>> before;
    for (size_t i = 0; i < n; ++i)
      for (auto &ct : c.args[i].constraints) {
        if (!used[i] || !used[ct.second]) continue;
        if (ct.first == CT_REQUIRES) before.insert({static_cast<int>(i), ct.second}); else before.insert({ct.second, static_cast<int>(i)});
      }
    while (!nodes.empty()) {
      std::vector<int> ready;
      for (int x : nodes) { bool blocked = false; for (auto &e : before) if (e.second == x && std::find(nodes.begin(), nodes.end(), e.first) != nodes.end()) blocked = true; if (!blocked) ready.push_back(x); }
      if (ready.empty()) ready = nodes;   // contradictory constraints: the model will reject the line, the case is discarded
      int x = oneOf(ready);
      order.push_back(x);
      nodes.erase(std::find(nodes.begin(), nodes.end(), x));
    }
  }
  // uses per argument
  std::map<int, int> differSalt, disjointSalt;
  for (auto &hc : c.hcs) {
    if (hc.type == HC_DIFFER) { int k = 0; for (int i : hc.args) differSalt[i] = k++; }
    if (hc.type == HC_DISJOINT) { disjointSalt[hc.args[0]] = 0; disjointSalt[hc.args[1]] = 1; }
  }
  Line line;
  std::set<int> constrained;
  for (size_t i = 0; i < n; ++i) for (auto &ct : c.args[i].constraints) { constrained.insert(static_cast<int>(i)); constrained.insert(ct.second); }
  for (auto &hc : c.hcs) if (hc.type == HC_ANY_OF || hc.type == HC_ONE_OF) for (int i : hc.args) constrained.insert(i);
  for (int ai : order) {
    const ArgDef &a = c.args[ai];
    const int kind = sk[a.slot];
    Use u;
    u.arg = ai;
    if (kind == K_FLAG) { line.push_back(u); continue; }
    u.hasValue = true;
    if (isScalar(kind)) {
      std::string t = genValidText(a, scalarValueType(kind), false);
      if (differSalt.count(ai)) {
        // distinct values by construction
        if (kind == K_STRING) t = std::string("v") + std::to_string(differSalt[ai]) + genString(0, 3, "abc");
        else t = std::to_string(100 + differSalt[ai] * 7 + *range<int>(0, 6));
        // an argument of the constraint that is NOT used has no value: taking exactly its initial content is legal
        for (auto &hc : c.hcs) {
          if (hc.type != HC_DIFFER || std::find(hc.args.begin(), hc.args.end(), ai) == hc.args.end()) continue;
          std::vector<int> unusedOthers;
          for (int o : hc.args) if (o != ai && !used[o]) unusedOthers.push_back(o);
          if (!unusedOthers.empty() && pick(40)) {
            const Val &iv = c.initial.at(c.args[oneOf(unusedOthers)].slot);
            if (kind == K_STRING ? !iv.s.empty() : true) t = iv.s;
          }
        }
      }
      if (a.spec == "-" && (t.empty() || needsAttach(t))) t = kind == K_STRING ? "p" + t.substr(t.empty() ? 0 : 1) : std::to_string(*range<int>(0, 99));
      u.elems = {t};
      line.push_back(u);
      continue;
    }
    // containers: capacity limits
    bool active; int maxv;
    cardinalityOf(a, kind, active, maxv);
    int budget = active && maxv >= 0 ? maxv : 12;
    if (a.cardKind == CARD_EXACT) budget = a.cardA;
    int minTotal = a.cardKind == CARD_EXACT ? a.cardA : a.cardKind == CARD_RANGE ? a.cardA : 1;
    if (isFixed(kind)) { budget = std::min(budget, 3); if (kind == K_TUPLE_ISI) { budget = 3; minTotal = 3; } }
    if (budget < 1) budget = 1;
    int total = *range<int>(std::min(minTotal, budget), std::min(budget, std::max(minTotal, 6)));
    if (!isFixed(kind) && budget >= 10 && pick(6)) total = *range<int>(9, std::min(budget, 14));   // now and then a long list (10th, 11th ... value of a destination)
    if (a.optionalValue && pick(35)) { u.hasValue = false; line.push_back(u); continue; }
    int salt = disjointSalt.count(ai) ? disjointSalt[ai] : -1;
    std::vector<std::string> all = genElems(a, kind, total, total, salt);
    if (a.unique == 2 || (a.unique && isFixed(kind))) {
      // unique=error: no duplicates and nothing that is already in the container (elements of fixed arrays: the whole array counts)
      std::vector<std::string> seen;
      const Val &iv = c.initial.at(a.slot);
      if (!a.clearFirst || isFixed(kind)) for (auto &e : iv.elems) seen.push_back(isKeyValue(kind) ? e.substr(0, e.find('\x1f')) : e);
      std::vector<std::string> filtered;
      for (auto &e : all) {
        std::string key = e;
        if (isKeyValue(kind)) { std::string body = e; std::string pfm = a.pairFormat.empty() ? "," : a.pairFormat; if (pfm.size() == 3) body = body.substr(1, body.size() - 2); key = body.substr(0, body.find(pfm[0])); }
        std::string canon = key;
        if (elemType(kind) == 'i') canon = std::to_string(strtoll(key.c_str(), nullptr, 10));
        if (std::find(seen.begin(), seen.end(), canon) != seen.end()) continue;
        seen.push_back(canon);
        filtered.push_back(e);
      }
      if (a.unique == 2 || isFixed(kind)) all = filtered;
      if (all.empty()) continue;
      if (static_cast<int>(all.size()) < minTotal && (a.cardKind == CARD_EXACT || a.cardKind == CARD_RANGE || kind == K_TUPLE_ISI)) continue;
    }
    if (a.spec == "-") {
      // every use is one bare word: its first element must not look like a key, and the list is not empty
      for (auto &x : cutIntoUses(a, ai, all, !constrained.count(ai))) {
        if (x.elems.empty() || needsAttach(x.elems[0])) x.elems.insert(x.elems.begin(), kind == K_VEC_STRING ? std::string("w") : std::string("7"));
        line.push_back(x);
      }
      continue;
    }
    for (auto &x : cutIntoUses(a, ai, all, !constrained.count(ai))) line.push_back(x);   // arguments of any/one-of and of requires/excludes are used once
  }
  // a bare word directly behind a multi-value argument (or behind an argument used without its optional value) would be
  // taken by that argument: move such positional uses to the front
  for (size_t i = 1; i < line.size(); ++i) {
    if (line[i].arg < 0 || c.args[line[i].arg].spec != "-") continue;
    const Use &prev = line[i - 1];
    const ArgDef &pa = c.args[prev.arg];
    bool swallow = (pa.multiValue && isContainer(sk[pa.slot])) || (!prev.hasValue && sk[pa.slot] != K_FLAG);
    if (swallow) { Use u = line[i]; line.erase(line.begin() + static_cast<long>(i)); line.insert(line.begin(), u); }
  }
  (void)pf; (void)maxUses;
  return line;
}

// ---------------------------------------------------------------- spelling
struct SpellOptions {
  bool allowGroups = true, allowAbbrev = true, allowEq = true, allowGlue = true;
  bool canonical = false;       // all long keys (short if none), next-word values, no grouping
  bool withArgFile = false;
  int doubledSepPercent = 8;
};
struct SpellStats { int abbrev = 0, eq = 0, glued = 0, grouped = 0, groupEndsInValue = 0, dashValue = 0, emptyValue = 0, endvalues = 0, doubledSep = 0; };


inline std::string joinList(const std::vector<std::string> &elems, char sep, SpellStats *ss, bool canonical, int dblPercent = 8) {
  std::string t;
  for (size_t i = 0; i < elems.size(); ++i) {
    if (i) { t += sep; if (!canonical && pick(dblPercent)) { t += sep; if (ss) ss->doubledSep++; } }   // empty tokens are ignored
    t += elems[i];
  }
  return t;
}

// Spells the uses that come from one source. Returns words (without program name).
inline std::vector<std::string> spell(const Config &c, const Line &line, const SpellOptions &so, SpellStats *ss = nullptr) {
  const auto &sk = slotKinds();
  KeySet ks = keySetOf(c, so.withArgFile);
  std::vector<std::string> w;
  bool lastWasMultiRun = false;
  for (size_t ui = 0; ui < line.size(); ++ui) {
    const Use &u = line[ui];
    std::string text;
    char shortKey = 0;
    std::string longKey;
    int kind = K_FLAG;
    bool optionalValue = false;
    if (u.arg < 0 && u.keyText.empty()) {   // stray value word
      w.push_back(u.elems.empty() ? std::string("x") : u.elems[0]);
      continue;
    }
    if (u.arg < 0) {
      if (u.keyText.size() == 1) shortKey = u.keyText[0]; else longKey = u.keyText;
      kind = u.hasValue ? K_STRING : K_FLAG;
      if (u.hasValue) text = u.elems.empty() ? "" : u.elems[0];
    } else if (c.args[u.arg].spec == "-") {
      // positional argument: the value is a bare word
      const ArgDef &a = c.args[u.arg];
      const int pk = sk[a.slot];
      w.push_back((isScalar(pk) || u.rawValue) ? (u.elems.empty() ? std::string("x") : u.elems[0]) : joinList(u.elems, effectiveSep(a, pk), ss, so.canonical, so.doubledSepPercent));
      continue;
    } else {
      const ArgDef &a = c.args[u.arg];
      shortKey = a.shortKey; longKey = a.longKey;
      kind = sk[a.slot];
      optionalValue = a.optionalValue;
      if (u.hasValue) text = (isScalar(kind) || u.rawValue) ? (u.elems.empty() ? "" : u.elems[0]) : joinList(u.elems, effectiveSep(a, kind), ss, so.canonical, so.doubledSepPercent);
    }
    // key form
    enum { SHORT, LONG } form = longKey.empty() ? SHORT : (!shortKey ? LONG : (so.canonical ? LONG : (pick(50) ? SHORT : LONG)));
    std::string longSpelled = longKey;
    if (form == LONG && !so.canonical && so.allowAbbrev && u.arg >= 0) {
      auto ab = ks.abbreviationsOf(longKey);
      if (!ab.empty() && pick(35)) { longSpelled = oneOf(ab); if (ss) ss->abbrev++; }
    }
    const bool takesValue = u.hasValue;
    if (takesValue && needsAttach(text) && ss) ss->dashValue++;
    if (takesValue && text.empty() && ss) ss->emptyValue++;
    if (form == LONG) {
      bool mustAttach = takesValue && needsAttach(text);
      if (takesValue && (mustAttach || (!so.canonical && so.allowEq && pick(40)))) { w.push_back("--" + longSpelled + "=" + text); if (ss) ss->eq++; }
      else { w.push_back("--" + longSpelled); if (takesValue) w.push_back(text); }
    } else {
      // short: maybe join the previous word if that is a pure flag group
      bool joined = false;
      std::string piece(1, shortKey);
      bool mustAttach = takesValue && needsAttach(text);
      bool glue = takesValue && !text.empty() && !optionalValue && (mustAttach || (!so.canonical && so.allowGlue && pick(35)));
      if (mustAttach && !glue) {
        // cannot be glued (optional value mode or empty): fall back to the long form with '=' if there is one
        if (!longKey.empty()) { w.push_back("--" + longKey + "=" + text); if (ss) ss->eq++; lastWasMultiRun = false; goto freeWords; }
      }
      if (!so.canonical && so.allowGroups && !w.empty() && pick(50)) {
        std::string &prev = w.back();
        // previous word is a flag group: '-' followed by flag characters only (tracked by marker below)
        if (prev.size() >= 2 && prev[0] == '-' && prev[1] != '-' && prev.back() == '\x01') {
          prev.pop_back();
          prev += piece;
          joined = true;
          if (ss) { ss->grouped++; if (takesValue) ss->groupEndsInValue++; }
        }
      }
      if (!joined) w.push_back("-" + piece);
      if (takesValue) {
        if (glue) { w.back() += text; if (ss) ss->glued++; }
        else w.push_back(text);
      } else if (kind == K_FLAG) {
        w.back() += '\x01';   // marker: open flag group (removed at the end); only real flags may be followed by more keys
      }
    }
  freeWords:
    lastWasMultiRun = false;
    if (u.arg >= 0) {
      const ArgDef &a = c.args[u.arg];
      for (auto &fw : u.free) { w.push_back(joinList(fw, effectiveSep(a, sk[a.slot]), ss, so.canonical, so.doubledSepPercent)); }
      if (a.multiValue && isContainer(sk[a.slot])) lastWasMultiRun = true;
    }
    if (lastWasMultiRun && (c.flags & F_END_VALUES) && !so.canonical && pick(30)) { w.push_back("--endvalues"); if (ss) ss->endvalues++; }
  }
  for (auto &x : w) if (!x.empty() && x.back() == '\x01') x.pop_back();
  return w;
}

}  // namespace argh
