// argh engine - plain-data description of an argument-handler configuration, of an abstract command
// line, and an INDEPENDENT reference model of what evaluating that line must do.
// This header never includes a Celma header.
#pragma once

#include "../common/verif.hpp"

#include <cinttypes>
#include <climits>
#include <cmath>
#include <map>
#include <set>
#include <string>
#include <vector>

namespace argh {

// ---------------------------------------------------------------- slot kinds
enum Kind {
  K_FLAG, K_INT, K_LONG, K_UINT, K_DOUBLE, K_STRING, K_OPT_INT, K_OPT_STRING,
  K_VEC_INT, K_VEC_STRING, K_LIST_INT, K_DEQUE_INT, K_SET_INT, K_MULTISET_INT, K_USET_INT, K_FWDLIST_INT,
  K_STACK_INT, K_QUEUE_INT, K_PQUEUE_INT, K_ARRAY3, K_CARRAY3, K_TUPLE_ISI, K_BITSET10, K_VECBOOL, K_DYNBITSET,
  K_MAP_IS, K_MULTIMAP_IS, K_UMAP_SI, K_KINDS
};
inline const char *kindName(int k) {
  static const char *n[] = {"flag", "int", "long", "uint", "double", "string", "opt_int", "opt_string",
                            "vec_int", "vec_string", "list_int", "deque_int", "set_int", "multiset_int", "uset_int",
                            "fwdlist_int", "stack_int", "queue_int", "pqueue_int", "array3", "carray3", "tuple_isi",
                            "bitset10", "vecbool", "dynbitset", "map_is", "multimap_is", "umap_si"};
  return n[k];
}
// slot pool: slot id -> kind. Several instances of the common kinds.
inline const std::vector<int> &slotKinds() {
  static const std::vector<int> s = {
      K_FLAG, K_FLAG, K_FLAG, K_FLAG, K_INT, K_INT, K_INT, K_INT, K_LONG, K_LONG, K_UINT, K_UINT, K_DOUBLE, K_DOUBLE,
      K_STRING, K_STRING, K_STRING, K_STRING, K_OPT_INT, K_OPT_INT, K_OPT_STRING, K_OPT_STRING,
      K_VEC_INT, K_VEC_INT, K_VEC_STRING, K_LIST_INT, K_DEQUE_INT, K_SET_INT, K_MULTISET_INT, K_USET_INT, K_FWDLIST_INT,
      K_STACK_INT, K_QUEUE_INT, K_PQUEUE_INT, K_ARRAY3, K_CARRAY3, K_TUPLE_ISI, K_BITSET10, K_VECBOOL, K_DYNBITSET,
      K_MAP_IS, K_MULTIMAP_IS, K_UMAP_SI};
  return s;
}
inline bool isScalar(int k) { return k >= K_INT && k <= K_OPT_STRING; }
inline bool isContainer(int k) { return k >= K_VEC_INT; }
inline bool isSeqLike(int k) { return k >= K_VEC_INT && k <= K_PQUEUE_INT; }       // std containers via ContainerAdapter
inline bool isFixed(int k) { return k == K_ARRAY3 || k == K_CARRAY3 || k == K_TUPLE_ISI; }
inline bool isBits(int k) { return k == K_BITSET10 || k == K_VECBOOL || k == K_DYNBITSET; }
inline bool isKeyValue(int k) { return k == K_MAP_IS || k == K_MULTIMAP_IS || k == K_UMAP_SI; }
inline bool isUnordered(int k) { return k == K_USET_INT || k == K_UMAP_SI; }
inline bool hasIterators(int k) { return isSeqLike(k) && k != K_STACK_INT && k != K_QUEUE_INT && k != K_PQUEUE_INT; }
inline bool isSortable(int k) { return k == K_VEC_INT || k == K_VEC_STRING || k == K_LIST_INT || k == K_DEQUE_INT || k == K_FWDLIST_INT || k == K_ARRAY3 || k == K_CARRAY3; }
// element type: 'i' int, 's' string, 'p' position, 'k' key-value
inline char elemType(int k) {
  if (k == K_VEC_STRING) return 's';
  if (isBits(k)) return 'p';
  if (isKeyValue(k)) return 'k';
  if (k == K_TUPLE_ISI) return 't';
  return 'i';
}
inline bool intLike(int k) { return k == K_INT || k == K_LONG || k == K_UINT || k == K_OPT_INT; }
inline bool stringLike(int k) { return k == K_STRING || k == K_OPT_STRING; }

// ---------------------------------------------------------------- values
// generic state of one destination variable
struct Val {
  bool b = false;                    // flag
  bool has = false;                  // optional engaged
  std::string s;                     // scalar, canonical text (ints: decimal; double: %a; string: itself)
  std::vector<std::string> elems;    // containers: canonical element texts; key-value: key + '\x1f' + value
  std::vector<bool> bits;            // bit kinds
  bool operator==(const Val &o) const { return b == o.b && has == o.has && s == o.s && elems == o.elems && bits == o.bits; }
};
inline std::string canonDouble(double d) { char b[64]; snprintf(b, sizeof b, "%a", d); return b; }
inline std::string showVal(int kind, const Val &v) {
  std::string r = std::string(kindName(kind)) + ":";
  if (kind == K_FLAG) return r + (v.b ? "true" : "false");
  if (kind == K_OPT_INT || kind == K_OPT_STRING) return r + (v.has ? "[" + v.s + "]" : "<none>");
  if (isScalar(kind)) return r + "[" + v.s + "]";
  if (isBits(kind)) { for (bool x : v.bits) r += x ? '1' : '0'; return r; }
  r += "{";
  for (auto &e : v.elems) { std::string t = e; for (auto &c : t) if (c == '\x1f') c = '>'; r += t + " "; }
  return r + "}";
}

// ---------------------------------------------------------------- configuration
enum CheckType { CH_LOWER, CH_UPPER, CH_RANGE, CH_VALUES, CH_MINLEN, CH_MAXLEN, CH_PATTERN };
struct Check { int type = 0; std::string a, b; };
inline const std::vector<std::string> &patternVocabulary() {
  static const std::vector<std::string> p = {"[0-9]+", "[a-z]+", "[a-z]+[0-9]*"};
  return p;
}
enum CardKind { CARD_DEFAULT, CARD_NONE, CARD_MAX, CARD_EXACT, CARD_RANGE };
enum ConstraintType { CT_REQUIRES, CT_EXCLUDES };
enum HCType { HC_ALL_OF, HC_ANY_OF, HC_ONE_OF, HC_DIFFER, HC_DISJOINT };

struct ArgDef {
  int slot = 0;
  std::string spec;           // exactly as passed to addArgument()
  char shortKey = 0;          // derived from spec (by the generator, not by Celma)
  std::string longKey;
  bool mandatory = false, hidden = false, deprecated = false;
  std::string replacedBy;
  bool optionalValue = false; // value mode 'optional' (containers with clear-before-assign and content)
  std::vector<Check> checks;
  int format = 0;             // 0 none, 1 uppercase, 2 lowercase
  int cardKind = CARD_DEFAULT, cardA = 0, cardB = 0;
  char listSep = 0;           // 0 = library default
  bool multiValue = false, clearFirst = false, sort = false;
  int unique = 0;             // 0 no, 1 drop duplicates, 2 duplicates are errors
  bool unsetFlag = false;     // bit kinds: reset instead of set
  std::string pairFormat;     // key-value kinds: "" = default
  std::vector<std::pair<int, int>> constraints;   // (ConstraintType, index of the other argument)
  // how constraint i is written in the definition (no influence on its meaning): bits 0-1 = how the other argument is named
  // (0 complete specification, 1 short key only, 2 long key only); bit 2 = appended to the key list of the previous
  // constraint of the same type ("d;c") instead of being added as a constraint of its own. Empty = all 0.
  std::vector<int> ctStyle;
  std::string desc;           // description (usage tests)
  std::vector<std::pair<int, int>> posFormats;   // (value position, 1 uppercase / 2 lowercase) - addFormatPos()
  bool inSubGroup = false;    // usage tests: the argument is defined in a sub-group handler reached through "-G,--sub-group"
  int printDefault = 0;       // 0: leave the library default, 1: setPrintDefault(true), 2: setPrintDefault(false)
};
struct HConstraint { int type = 0; std::vector<int> args; };
// handler flags (our own bit numbering, mapped to Celma's in the real part)
// bits 20..27 of Config::flags: usage line length (0 = default)
inline int usageLineLength(int flags) { return (flags >> 20) & 0xff; }
enum Flag { F_NO_ABBR = 1, F_END_VALUES = 2, F_HELP_SHORT = 4, F_HELP_LONG = 8, F_HELP_ARG = 16, F_HELP_ARG_FULL = 32,
            F_USAGE_HIDDEN = 64, F_ARG_HIDDEN = 128, F_USAGE_DEPRECATED = 256, F_ARG_DEPRECATED = 512,
            F_USAGE_SHORT = 1024, F_USAGE_LONG = 2048, F_LIST_ARG_VAR = 4096, F_VERBOSE = 8192,
            F_READ_PROG_ARG = 16384, F_ENV_VAR_ARGS = 32768 };
struct Config {
  int flags = 0;
  std::vector<ArgDef> args;
  std::vector<HConstraint> hcs;
  std::map<int, Val> initial;   // slot -> initial content (slots not listed start default-constructed)
};

// long keys that the handler defines itself because of flags
inline std::vector<std::string> builtinLongKeys(int flags) {
  std::vector<std::string> r;
  if (flags & F_HELP_LONG) r.push_back("help");
  if (flags & F_HELP_ARG) r.push_back("help-arg");
  if (flags & F_HELP_ARG_FULL) r.push_back("help-arg-full");
  if (flags & F_ARG_HIDDEN) r.push_back("print-hidden");
  if (flags & F_ARG_DEPRECATED) r.push_back("print-deprecated");
  if (flags & F_USAGE_SHORT) r.push_back("help-short");
  if (flags & F_USAGE_LONG) r.push_back("help-long");
  if (flags & F_LIST_ARG_VAR) r.push_back("list-arg-vars");
  if (flags & F_END_VALUES) r.push_back("endvalues");
  return r;
}
inline std::vector<char> builtinShortKeys(int flags) {
  std::vector<char> r;
  if (flags & F_HELP_SHORT) r.push_back('h');
  return r;
}

// ---------------------------------------------------------------- abstract line
enum Source { SRC_ARGV, SRC_FILE, SRC_ENV };
struct Use {
  int arg = -1;                          // index into Config::args; -1 = unknown key (keyText says which)
  std::string keyText;                   // only for arg == -1: the unknown key ("x" or "word")
  bool hasValue = false;                 // a value (list text) is attached to the key
  std::vector<std::string> elems;        // elements of the list text given with the key (scalars: exactly one)
  std::vector<std::vector<std::string>> free;   // further free words (multi-value), each a list of elements
  int source = SRC_ARGV;
  bool rawValue = false;                 // value text is elems[0] verbatim (not a list) - used for bad values
};
using Line = std::vector<Use>;

// ---------------------------------------------------------------- model
struct ModelResult {
  enum Verdict { ACCEPT, REJECT, UNDEFINED } verdict = ACCEPT;
  std::string reason;
  std::map<int, Val> state;   // slot -> value, for every slot of the pool that is defined or initialised
};

inline bool parseIntIn(const std::string &t, long long lo, long long hi, long long &out) {
  if (t.empty()) return false;
  size_t i = 0;
  if (t[0] == '-' || t[0] == '+') i = 1;
  if (i >= t.size()) return false;
  for (size_t j = i; j < t.size(); ++j) if (!isdigit(static_cast<unsigned char>(t[j]))) return false;
  if (t.size() - i > 19) return false;
  errno = 0;
  long long v = strtoll(t.c_str(), nullptr, 10);
  if (errno) return false;
  if (v < lo || v > hi) return false;
  out = v;
  return true;
}
inline bool matchPattern(const std::string &pat, const std::string &v) {
  auto all = [&](size_t from, size_t to, int (*f)(int)) { for (size_t i = from; i < to; ++i) if (!f(static_cast<unsigned char>(v[i]))) return false; return true; };
  if (pat == "[0-9]+") return !v.empty() && all(0, v.size(), isdigit);
  if (pat == "[a-z]+") return !v.empty() && all(0, v.size(), islower);
  if (pat == "[a-z]+[0-9]*") {
    size_t i = 0;
    while (i < v.size() && islower(static_cast<unsigned char>(v[i]))) ++i;
    return i > 0 && all(i, v.size(), isdigit);
  }
  return false;
}
// the text -> element conversion for a kind's element; returns false if not convertible
inline bool convertElem(char et, const std::string &text, std::string &canon) {
  long long v;
  switch (et) {
    case 'i': if (!parseIntIn(text, INT_MIN, INT_MAX, v)) return false; canon = std::to_string(v); return true;
    case 's': canon = text; return true;
    case 'p': if (!parseIntIn(text, 0, 1000000, v) || text[0] == '-' || text[0] == '+') return false; canon = std::to_string(v); return true;
  }
  return false;
}
inline bool convertScalar(int kind, const std::string &text, std::string &canon) {
  long long v;
  switch (kind) {
    case K_INT: case K_OPT_INT: if (!parseIntIn(text, INT_MIN, INT_MAX, v)) return false; canon = std::to_string(v); return true;
    case K_LONG: if (!parseIntIn(text, LLONG_MIN, LLONG_MAX, v)) return false; canon = std::to_string(v); return true;
    case K_UINT: if (!parseIntIn(text, 0, UINT_MAX, v) || text[0] == '-') return false; canon = std::to_string(v); return true;
    case K_DOUBLE: {
      if (text.empty()) return false;
      char *end = nullptr;
      double d = strtod(text.c_str(), &end);
      if (*end != 0 || isspace(static_cast<unsigned char>(text[0]))) return false;
      canon = canonDouble(d);
      return true;
    }
    case K_STRING: case K_OPT_STRING: canon = text; return true;
  }
  return false;
}
inline std::string applyFormat(int fmt, std::string v) {
  if (fmt == 1) for (auto &c : v) c = static_cast<char>(toupper(static_cast<unsigned char>(c)));
  if (fmt == 2) for (auto &c : v) c = static_cast<char>(tolower(static_cast<unsigned char>(c)));
  return v;
}
inline std::string applyPosFormat(const ArgDef &a, size_t pos, std::string v) {
  for (auto &pf : a.posFormats) if (static_cast<size_t>(pf.first) == pos) v = applyFormat(pf.second, v);
  return v;
}
// returns "" if all checks pass, else the name of the failing check
inline std::string runChecks(const ArgDef &a, const std::string &text) {
  for (auto &c : a.checks) {
    long long v, lo, hi;
    switch (c.type) {
      case CH_LOWER: if (!parseIntIn(text, INT_MIN, INT_MAX, v)) return "lower(conversion)"; parseIntIn(c.a, INT_MIN, INT_MAX, lo); if (v < lo) return "lower"; break;
      case CH_UPPER: if (!parseIntIn(text, INT_MIN, INT_MAX, v)) return "upper(conversion)"; parseIntIn(c.a, INT_MIN, INT_MAX, hi); if (v >= hi) return "upper"; break;
      case CH_RANGE: if (!parseIntIn(text, INT_MIN, INT_MAX, v)) return "range(conversion)"; parseIntIn(c.a, INT_MIN, INT_MAX, lo); parseIntIn(c.b, INT_MIN, INT_MAX, hi); if (v < lo || v >= hi) return "range"; break;
      case CH_VALUES: {
        bool found = false;
        std::string cur;
        for (size_t i = 0; i <= c.a.size(); ++i) {
          if (i == c.a.size() || c.a[i] == ',') { if (!cur.empty() && cur == text) found = true; cur.clear(); }
          else cur += c.a[i];
        }
        if (!found) return "values";
        break;
      }
      case CH_MINLEN: if (text.size() < static_cast<size_t>(atoi(c.a.c_str()))) return "minlen"; break;
      case CH_MAXLEN: if (text.size() > static_cast<size_t>(atoi(c.a.c_str()))) return "maxlen"; break;
      case CH_PATTERN: if (!matchPattern(c.a, text)) return "pattern"; break;
    }
  }
  return "";
}

inline Val defaultVal(int kind) {
  Val v;
  if (kind == K_ARRAY3 || kind == K_CARRAY3) v.elems = {"0", "0", "0"};
  if (kind == K_TUPLE_ISI) v.elems = {"0", "", "0"};
  if (kind == K_BITSET10) v.bits.assign(10, false);
  if (kind == K_INT || kind == K_LONG || kind == K_UINT) v.s = "0";
  if (kind == K_DOUBLE) v.s = canonDouble(0.0);
  return v;
}

struct ArgState {
  int cardCount = 0;
  bool used = false;
  bool cleared = false;      // clear-before-assign already done
  size_t fixedIndex = 0;     // array / tuple: next index
  bool valueSet = false;     // scalars: mHasValueSet
};

inline bool modelHasValue(int kind, const Val &v, const ArgState &st) {
  if (kind == K_FLAG) return st.valueSet;
  if (kind == K_OPT_INT || kind == K_OPT_STRING) return v.has;
  if (isScalar(kind)) return st.valueSet;
  if (kind == K_ARRAY3 || kind == K_CARRAY3) return st.fixedIndex > 0;
  if (kind == K_TUPLE_ISI) return st.fixedIndex == 3;
  if (isBits(kind)) { for (bool b : v.bits) if (b) return true; return false; }
  return !v.elems.empty();
}

inline int numericCompare(const std::string &a, const std::string &b) {
  long long x = strtoll(a.c_str(), nullptr, 10), y = strtoll(b.c_str(), nullptr, 10);
  return x < y ? -1 : x > y ? 1 : 0;
}
inline void sortElems(char et, std::vector<std::string> &e, size_t upto) {
  auto cmp = [et](const std::string &a, const std::string &b) { return et == 's' ? a < b : numericCompare(a, b) < 0; };
  std::stable_sort(e.begin(), e.begin() + static_cast<long>(upto), cmp);
}
inline std::vector<std::string> splitList(const std::string &text, char sep) {
  std::vector<std::string> r;
  std::string cur;
  for (char c : text) { if (c == sep) { if (!cur.empty()) r.push_back(cur); cur.clear(); } else cur += c; }
  if (!cur.empty()) r.push_back(cur);
  return r;
}
inline char effectiveSep(const ArgDef &a, int kind) { return a.listSep ? a.listSep : (isKeyValue(kind) ? ';' : ','); }

// which cardinality object does the argument have, and what is its upper limit (-1 = none)
inline void cardinalityOf(const ArgDef &a, int kind, bool &active, int &maxv) {
  active = true; maxv = -1;
  switch (a.cardKind) {
    case CARD_DEFAULT:
      if (kind == K_TUPLE_ISI) maxv = 3;
      else if (isContainer(kind)) active = false;
      else maxv = 1;
      break;
    case CARD_NONE: active = false; break;
    case CARD_MAX: maxv = a.cardA; break;
    case CARD_EXACT: maxv = a.cardA; break;
    case CARD_RANGE: maxv = a.cardB; break;
  }
}

// one assignValue() call worth of elements for a container kind; returns "" or the rejection reason
inline std::string modelAssignContainer(const ArgDef &a, int kind, const std::vector<std::string> &tokens, Val &v, ArgState &st,
                                        bool &undefined) {
  const char et = elemType(kind);
  if (a.clearFirst && !st.cleared) {
    st.cleared = true;
    if (isBits(kind)) { if (kind == K_BITSET10) v.bits.assign(10, false); else v.bits.clear(); }
    else v.elems.clear();
  }
  if (kind == K_VECBOOL && v.bits.empty()) v.bits.assign(10, false);
  bool first = true;
  for (auto &tok : tokens) {
    if (!first) {
      // the library counts every further list element if (and only if) a cardinality object exists:
      // containers have none unless one was set; a tuple gets "exactly <tuple length>"
      bool active; int maxv;
      cardinalityOf(a, kind, active, maxv);
      if (active) { ++st.cardCount; if (maxv != -1 && st.cardCount > maxv) return "cardinality(too many values)"; }
    }
    first = false;
    if ((kind == K_ARRAY3 || kind == K_CARRAY3) && st.fixedIndex == 3) return "fixed array overflow";
    if (kind == K_TUPLE_ISI && st.fixedIndex >= 3) return "tuple overflow";
    std::string f = runChecks(a, tok);
    if (!f.empty()) return "check " + f;
    std::string text = applyFormat(a.format, tok);
    if (et == 'k') {
      std::string body = text;
      std::string pf = a.pairFormat.empty() ? std::string(",") : a.pairFormat;
      if (pf.size() == 3) {
        if (body.size() >= 2 && body.front() == pf[1] && body.back() == pf[2]) body = body.substr(1, body.size() - 2);
        else return "pair format";
      }
      size_t p = body.find(pf[0]);
      if (p == std::string::npos || p == 0 || p + 1 >= body.size()) return "pair format";
      std::string ks = body.substr(0, p), vs = body.substr(p + 1), kc, vc;
      char kt = kind == K_UMAP_SI ? 's' : 'i', vt = kind == K_UMAP_SI ? 'i' : 's';
      if (!convertElem(kt, ks, kc)) return "conversion(key)";
      bool present = false;
      for (auto &e : v.elems) if (e.substr(0, e.find('\x1f')) == kc) present = true;
      if (a.unique && present) { if (a.unique == 2) return "duplicate"; continue; }
      if (!convertElem(vt, vs, vc)) return "conversion(value)";
      if (present && kind != K_MULTIMAP_IS) continue;   // map::insert keeps the first value of a key
      v.elems.push_back(kc + '\x1f' + vc);
      continue;
    }
    if (et == 't') {
      std::string c;
      char tt = st.fixedIndex == 1 ? 's' : 'i';
      text = applyPosFormat(a, st.fixedIndex, tok);   // tuples only have formatters per position
      if (!convertElem(tt, text, c)) return "conversion";
      v.elems[st.fixedIndex++] = c;
      continue;
    }
    // positional formatters: the position is the index the new value gets (vector: current size; arrays: next index)
    if (kind == K_VEC_INT || kind == K_VEC_STRING) text = applyPosFormat(a, v.elems.size(), text);
    if (kind == K_ARRAY3 || kind == K_CARRAY3) text = applyPosFormat(a, st.fixedIndex, text);
    std::string canon;
    if (!convertElem(et, text, canon)) return "conversion";
    if (et == 'p') {
      size_t pos = static_cast<size_t>(strtoull(canon.c_str(), nullptr, 10));
      if (kind == K_BITSET10) { if (pos >= 10) return "bitset position out of range"; }
      else if (pos >= v.bits.size()) {
        // growth rule is the library's business: size afterwards is taken from the implementation, see compare
        v.bits.resize(pos + 1, false);
        undefined = undefined;   // (size beyond pos+1 is compared leniently)
      }
      v.bits[pos] = !a.unsetFlag;
      continue;
    }
    if (kind == K_ARRAY3 || kind == K_CARRAY3) {
      if (a.unique) {
        bool dup = false;
        for (auto &e : v.elems) if (e == canon) dup = true;   // whole array, incl. slots not assigned yet
        if (dup) { if (a.unique == 2) return "duplicate"; continue; }
      }
      v.elems[st.fixedIndex++] = canon;
      continue;
    }
    if (a.unique && hasIterators(kind)) {
      bool dup = false;
      for (auto &e : v.elems) if (e == canon) dup = true;
      if (dup) { if (a.unique == 2) return "duplicate"; continue; }
    }
    if (kind == K_SET_INT || kind == K_USET_INT) {
      bool dup = false;
      for (auto &e : v.elems) if (e == canon) dup = true;
      if (dup) continue;
    }
    if (kind == K_FWDLIST_INT) v.elems.insert(v.elems.begin(), canon);
    else v.elems.push_back(canon);
  }
  if (a.sort && isSortable(kind)) {
    if (kind == K_ARRAY3 || kind == K_CARRAY3) sortElems(et, v.elems, st.fixedIndex);
    else sortElems(et, v.elems, v.elems.size());
  }
  return "";
}

// canonical order for comparison: sorted containers sorted, adapters in pop order
inline void canonicalise(int kind, Val &v) {
  auto numLess = [](const std::string &a, const std::string &b) { return numericCompare(a, b) < 0; };
  switch (kind) {
    case K_SET_INT: case K_MULTISET_INT: std::stable_sort(v.elems.begin(), v.elems.end(), numLess); break;
    case K_USET_INT: std::stable_sort(v.elems.begin(), v.elems.end(), numLess); break;
    case K_PQUEUE_INT: std::stable_sort(v.elems.begin(), v.elems.end(), [&](const std::string &a, const std::string &b) { return numericCompare(a, b) > 0; }); break;   // pop order: largest first
    case K_STACK_INT: break;   // kept in push order by both sides
    case K_MAP_IS: case K_MULTIMAP_IS:
      std::stable_sort(v.elems.begin(), v.elems.end(), [&](const std::string &a, const std::string &b) { return numericCompare(a, b) < 0; });
      break;
    case K_UMAP_SI: std::sort(v.elems.begin(), v.elems.end()); break;
    default: break;
  }
}

inline ModelResult evalModel(const Config &cfg, const Line &line) {
  ModelResult r;
  const auto &sk = slotKinds();
  for (auto &a : cfg.args) r.state[a.slot] = defaultVal(sk[a.slot]);
  for (auto &iv : cfg.initial) r.state[iv.first] = iv.second;
  std::vector<ArgState> st(cfg.args.size());
  std::set<int> pendingRequired;
  std::map<int, int> excludedBy;
  std::vector<int> hcUsed(cfg.hcs.size(), 0);
  std::vector<std::set<int>> hcSeen(cfg.hcs.size());
  auto reject = [&](const std::string &why) { r.verdict = ModelResult::REJECT; r.reason = why; return r; };
  auto undefinedR = [&](const std::string &why) { r.verdict = ModelResult::UNDEFINED; r.reason = why; return r; };

  for (size_t ui = 0; ui < line.size(); ++ui) {
    const Use &u = line[ui];
    if (u.arg < 0) {
      if (u.keyText.empty()) {
        // a bare value word without key: it belongs to the preceding argument if that one takes multiple values,
        // otherwise (no positional argument is ever defined) it is an unknown argument
        if (ui > 0 && line[ui - 1].arg >= 0 && cfg.args[line[ui - 1].arg].multiValue && isContainer(sk[cfg.args[line[ui - 1].arg].slot]))
          return undefinedR("stray value behind a multi-value argument");
        if (ui > 0 && line[ui - 1].arg >= 0 && !line[ui - 1].hasValue && sk[cfg.args[line[ui - 1].arg].slot] != K_FLAG)
          return undefinedR("stray value behind an argument used without its (optional) value");
        for (auto &pa : cfg.args) if (pa.spec == "-") return undefinedR("bare value while a positional argument is defined");
        return reject("stray value without key");
      }
      return reject("unknown key '" + u.keyText + "'");
    }
    const ArgDef &a = cfg.args[u.arg];
    const int kind = sk[a.slot];
    if (a.spec == "-" && ui > 0 && line[ui - 1].arg >= 0) {
      // a bare word belongs to the preceding argument if that one takes multiple values or was used without its optional value
      const ArgDef &pa = cfg.args[line[ui - 1].arg];
      if ((pa.multiValue && isContainer(sk[pa.slot])) || (!line[ui - 1].hasValue && sk[pa.slot] != K_FLAG && pa.spec != "-"))
        return undefinedR("positional value directly behind a multi-value / optional-value argument");
    }
    ArgState &as = st[u.arg];
    Val &v = r.state[a.slot];
    const bool ignoreCard = u.source != SRC_ARGV;
    // --- identification: argument constraints, then handler constraints
    if (excludedBy.count(u.arg)) return reject("argument excluded by an earlier one");
    pendingRequired.erase(u.arg);
    for (size_t h = 0; h < cfg.hcs.size(); ++h) {
      const HConstraint &hc = cfg.hcs[h];
      if (std::find(hc.args.begin(), hc.args.end(), u.arg) == hc.args.end()) continue;
      if (hc.type == HC_ANY_OF || hc.type == HC_ONE_OF) {
        if (hcSeen[h].count(u.arg)) return undefinedR("argument of any/one-of used twice");
        if (hcUsed[h] > 0) return reject("second argument of an any-of/one-of constraint");
      }
      hcSeen[h].insert(u.arg);
      ++hcUsed[h];
    }
    // --- value presence
    if (kind == K_FLAG) {
      if (u.hasValue) return undefinedR("flag with value");
    } else if (!u.hasValue) {
      if (ui + 1 < line.size() && line[ui + 1].arg >= 0 && cfg.args[line[ui + 1].arg].spec == "-")
        return undefinedR("argument without value directly in front of a positional value");
      if (!a.optionalValue) return reject("missing value");
    }
    // --- assignValue
    if (a.deprecated) return reject("deprecated/replaced argument used");
    // cardinality: one count per assignValue() unless from file/env
    auto countUse = [&]() -> bool {
      if (ignoreCard) return true;
      bool active; int maxv;
      cardinalityOf(a, kind, active, maxv);
      if (!active) return true;
      ++as.cardCount;
      return maxv == -1 || as.cardCount <= maxv;
    };
    auto activate = [&]() {
      for (auto &c : a.constraints) {
        if (c.first == CT_REQUIRES) pendingRequired.insert(c.second);
        else if (!excludedBy.count(c.second)) excludedBy[c.second] = u.arg;
      }
    };
    if (kind == K_FLAG) {
      if (!countUse()) return reject("cardinality(too many uses)");
      auto it = cfg.initial.find(a.slot);
      bool init = it != cfg.initial.end() && it->second.b;
      v.b = !init;
      as.valueSet = true;
      as.used = true;
      activate();
      continue;
    }
    if (isScalar(kind)) {
      if (!countUse()) return reject("cardinality(too many uses)");
      if (u.elems.size() != 1) return undefinedR("scalar needs exactly one value");
      const std::string &text = u.elems[0];
      std::string f = runChecks(a, text);
      if (!f.empty()) return reject("check " + f);
      std::string canon;
      if (!convertScalar(kind, applyFormat(a.format, text), canon)) return reject("conversion");
      v.s = canon;
      v.has = (kind == K_OPT_INT || kind == K_OPT_STRING);
      as.valueSet = true;
      as.used = true;
      activate();
      continue;
    }
    // containers: the key's list text (possibly absent with optional value mode), then free words
    bool undef = false;
    std::vector<std::vector<std::string>> calls;
    if (u.hasValue) calls.push_back(u.elems);
    else calls.push_back({});   // optional value: assignValue("") - clears (if configured) and assigns nothing
    for (auto &fw : u.free) calls.push_back(fw);
    if (!u.free.empty() && !a.multiValue) return undefinedR("free values without multi-value");
    for (auto &c : calls) {
      if (!countUse()) return reject("cardinality(too many values)");
      std::string why = modelAssignContainer(a, kind, c, v, as, undef);
      if (!why.empty()) return reject(why);
      as.used = true;
      activate();
    }
  }
  // --- end of line checks
  for (size_t i = 0; i < cfg.args.size(); ++i) {
    const ArgDef &a = cfg.args[i];
    const int kind = sk[a.slot];
    if (a.mandatory && !modelHasValue(kind, r.state[a.slot], st[i])) return reject("mandatory argument missing");
    int cardKind = a.cardKind, n = a.cardA;
    if (cardKind == CARD_DEFAULT && kind == K_TUPLE_ISI) { cardKind = CARD_EXACT; n = 3; }
    if (cardKind == CARD_EXACT && st[i].cardCount > 0 && st[i].cardCount != n) return reject("cardinality(not all expected values)");
    if (cardKind == CARD_RANGE && st[i].cardCount != 0 && st[i].cardCount < a.cardA) return reject("cardinality(too few values)");
  }
  if (!pendingRequired.empty()) return reject("required argument missing");
  for (size_t h = 0; h < cfg.hcs.size(); ++h) {
    const HConstraint &hc = cfg.hcs[h];
    if (hc.type == HC_ALL_OF) {
      if (hcSeen[h].empty()) return undefinedR("all-of with none of its arguments used");
      if (hcSeen[h].size() != hc.args.size()) return reject("all-of partially used");
    } else if (hc.type == HC_ONE_OF) {
      if (hcUsed[h] == 0) return reject("one-of with none used");
    } else if (hc.type == HC_DIFFER) {
      for (int x : hc.args) for (int y : hc.args) {
        if (x >= y) continue;
        int kx = sk[cfg.args[x].slot], ky = sk[cfg.args[y].slot];
        if (modelHasValue(kx, r.state[cfg.args[x].slot], st[x]) && modelHasValue(ky, r.state[cfg.args[y].slot], st[y]) &&
            r.state[cfg.args[x].slot].s == r.state[cfg.args[y].slot].s)
          return reject("differ constraint: equal values");
      }
    } else if (hc.type == HC_DISJOINT) {
      const Val &x = r.state[cfg.args[hc.args[0]].slot], &y = r.state[cfg.args[hc.args[1]].slot];
      if (!x.elems.empty() && !y.elems.empty())
        for (auto &e : x.elems) if (std::find(y.elems.begin(), y.elems.end(), e) != y.elems.end()) return reject("disjoint constraint: common element");
    }
  }
  for (auto &kv : r.state) canonicalise(sk[kv.first], kv.second);
  return r;
}

// ---------------------------------------------------------------- (de)serialisation
inline void writeVal(verif::Writer &w, const Val &v) {
  w.u(v.b).u(v.has).s(v.s).u(v.elems.size());
  for (auto &e : v.elems) w.s(e);
  std::string bits;
  for (bool b : v.bits) bits += b ? '1' : '0';
  w.s(bits);
}
inline Val readVal(verif::Reader &r) {
  Val v;
  v.b = r.u() != 0; v.has = r.u() != 0; v.s = r.s();
  size_t n = r.u();
  for (size_t i = 0; i < n; ++i) v.elems.push_back(r.s());
  for (char c : r.s()) v.bits.push_back(c == '1');
  return v;
}
inline void writeConfig(verif::Writer &w, const Config &c) {
  w.tag("config").u(c.flags).u(c.args.size()).u(c.hcs.size()).u(c.initial.size()).nl();
  for (auto &a : c.args) {
    w.tag("arg").u(a.slot).tag(kindName(slotKinds()[a.slot])).s(a.spec).u(static_cast<unsigned char>(a.shortKey)).s(a.longKey)
        .u(a.mandatory).u(a.hidden).u(a.deprecated).s(a.replacedBy).u(a.optionalValue).u(a.format)
        .u(a.cardKind).i(a.cardA).i(a.cardB).u(static_cast<unsigned char>(a.listSep)).u(a.multiValue).u(a.clearFirst).u(a.sort)
        .u(a.unique).u(a.unsetFlag).s(a.pairFormat).u(a.printDefault).s(a.desc);
    w.u(a.checks.size());
    for (auto &ch : a.checks) w.u(ch.type).s(ch.a).s(ch.b);
    w.u(a.constraints.size());
    for (auto &ct : a.constraints) w.u(ct.first).u(ct.second);
    if (!a.posFormats.empty()) { w.tag("pf").u(a.posFormats.size()); for (auto &pf : a.posFormats) w.u(pf.first).u(pf.second); }
    if (a.inSubGroup) w.tag("sg");
    { bool any = false; for (int x : a.ctStyle) if (x) any = true; if (any) { w.tag("cs").u(a.ctStyle.size()); for (int x : a.ctStyle) w.u(static_cast<uint64_t>(x)); } }
    w.nl();
  }
  for (auto &h : c.hcs) { w.tag("hc").u(h.type).u(h.args.size()); for (int x : h.args) w.u(x); w.nl(); }
  for (auto &iv : c.initial) { w.tag("init").u(iv.first); writeVal(w, iv.second); w.nl(); }
}
inline Config readConfig(verif::Reader &r) {
  Config c;
  r.tag();
  c.flags = static_cast<int>(r.u());
  size_t na = r.u(), nh = r.u(), ni = r.u();
  for (size_t i = 0; i < na; ++i) {
    ArgDef a;
    r.tag(); a.slot = static_cast<int>(r.u()); r.tag(); a.spec = r.s(); a.shortKey = static_cast<char>(r.u()); a.longKey = r.s();
    a.mandatory = r.u(); a.hidden = r.u(); a.deprecated = r.u(); a.replacedBy = r.s(); a.optionalValue = r.u(); a.format = static_cast<int>(r.u());
    a.cardKind = static_cast<int>(r.u()); a.cardA = static_cast<int>(r.i()); a.cardB = static_cast<int>(r.i()); a.listSep = static_cast<char>(r.u());
    a.multiValue = r.u(); a.clearFirst = r.u(); a.sort = r.u(); a.unique = static_cast<int>(r.u()); a.unsetFlag = r.u(); a.pairFormat = r.s();
    a.printDefault = static_cast<int>(r.u()); a.desc = r.s();
    size_t nc = r.u();
    for (size_t j = 0; j < nc; ++j) { Check ch; ch.type = static_cast<int>(r.u()); ch.a = r.s(); ch.b = r.s(); a.checks.push_back(ch); }
    size_t nct = r.u();
    for (size_t j = 0; j < nct; ++j) { int t = static_cast<int>(r.u()); int o = static_cast<int>(r.u()); a.constraints.push_back({t, o}); }
    if (!r.eof() && r.peek() == "pf") { r.tag(); size_t np = r.u(); for (size_t j = 0; j < np; ++j) { int i = static_cast<int>(r.u()); int f = static_cast<int>(r.u()); a.posFormats.push_back({i, f}); } }
    if (!r.eof() && r.peek() == "sg") { r.tag(); a.inSubGroup = true; }
    if (!r.eof() && r.peek() == "cs") { r.tag(); size_t ns = r.u(); for (size_t j = 0; j < ns; ++j) a.ctStyle.push_back(static_cast<int>(r.u())); }
    c.args.push_back(a);
  }
  for (size_t i = 0; i < nh; ++i) { HConstraint h; r.tag(); h.type = static_cast<int>(r.u()); size_t n = r.u(); for (size_t j = 0; j < n; ++j) h.args.push_back(static_cast<int>(r.u())); c.hcs.push_back(h); }
  for (size_t i = 0; i < ni; ++i) { r.tag(); int slot = static_cast<int>(r.u()); c.initial[slot] = readVal(r); }
  return c;
}
inline void writeLine(verif::Writer &w, const Line &l) {
  w.tag("line").u(l.size()).nl();
  for (auto &u : l) {
    w.tag("use").i(u.arg).s(u.keyText).u(u.hasValue).u(u.source).u(u.rawValue).u(u.elems.size());
    for (auto &e : u.elems) w.s(e);
    w.u(u.free.size());
    for (auto &f : u.free) { w.u(f.size()); for (auto &e : f) w.s(e); }
    w.nl();
  }
}
inline Line readLine(verif::Reader &r) {
  Line l;
  r.tag();
  size_t n = r.u();
  for (size_t i = 0; i < n; ++i) {
    Use u;
    r.tag(); u.arg = static_cast<int>(r.i()); u.keyText = r.s(); u.hasValue = r.u(); u.source = static_cast<int>(r.u()); u.rawValue = r.u();
    size_t ne = r.u();
    for (size_t j = 0; j < ne; ++j) u.elems.push_back(r.s());
    size_t nf = r.u();
    for (size_t j = 0; j < nf; ++j) { size_t m = r.u(); std::vector<std::string> f; for (size_t k = 0; k < m; ++k) f.push_back(r.s()); u.free.push_back(f); }
    l.push_back(u);
  }
  return l;
}
inline void writeWords(verif::Writer &w, const char *tag, const std::vector<std::string> &v) {
  w.tag(tag).u(v.size());
  for (auto &s : v) w.s(s);
  w.nl();
}
inline std::vector<std::string> readWords(verif::Reader &r) {
  r.tag();
  size_t n = r.u();
  std::vector<std::string> v;
  for (size_t i = 0; i < n; ++i) v.push_back(r.s());
  return v;
}

// ---------------------------------------------------------------- real side interface (implemented in real.cpp)
struct RealInput {
  std::vector<std::string> argv;        // argv[0] = program name
  std::string fileBody;                 // content of $HOME/.progargs/<prog>.pa resp. of the --arg-file file
  bool haveFile = false;
  bool fileViaArgument = false;         // use addArgumentFile("arg-file") instead of hfReadProgArg
  std::string envBody;
  bool haveEnv = false;
  std::string envName;                  // "" = default name (hfEnvVarArgs), else checkEnvVarArgs(name)
  bool usageAgain = false;              // run time only: stream the handler once more after the evaluation (second usage output)
  bool prepared = false;                // run time only (threads): the caller has set the named environment variable already,
                                        // runReal() must not touch the process environment
  // groups: partition of the arguments over member handlers; empty = plain handler
  std::vector<int> groupOf;             // per argument: member index
  int groupCount = 0;
};
struct RealResult {
  bool threw = false;
  bool stdException = true;
  std::string what;
  std::string exceptionType;
  std::map<int, Val> state;
  std::string out, err;
  std::string out2;                     // the handler streamed again after the evaluation (usageAgain)
  bool setupThrew = false;              // exception while defining arguments (not during evaluation)
};
RealResult runReal(const Config &cfg, const RealInput &in);
// forgets process-wide library state (the Groups singleton), as at process start
void resetGlobalState();

inline std::string compareStates(const Config &cfg, const std::map<int, Val> &model, const std::map<int, Val> &real) {
  const auto &sk = slotKinds();
  for (auto &kv : model) {
    auto it = real.find(kv.first);
    if (it == real.end()) return "slot " + std::to_string(kv.first) + " missing in real state";
    int kind = sk[kv.first];
    Val m = kv.second, r = it->second;
    if (kind == K_VECBOOL || kind == K_DYNBITSET) {
      // growth factor is the library's choice: compare zero-extended, real size must cover every model bit
      if (r.bits.size() < m.bits.size()) {
        bool lost = false;
        for (size_t i = r.bits.size(); i < m.bits.size(); ++i) if (m.bits[i]) lost = true;
        if (lost || true) return "slot " + std::to_string(kv.first) + " " + kindName(kind) + ": destination has " + std::to_string(r.bits.size()) +
                                 " bits, but position " + std::to_string(m.bits.size() - 1) + " was addressed; expected " + showVal(kind, m) + " got " + showVal(kind, r);
      }
      m.bits.resize(r.bits.size(), false);
    }
    if (!(m == r)) return "slot " + std::to_string(kv.first) + ": expected " + showVal(kind, m) + ", destination holds " + showVal(kind, r);
  }
  (void)cfg;
  return "";
}

}  // namespace argh
