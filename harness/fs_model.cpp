// C11 - FixedString equals std::string cut off at the capacity, for in-domain arguments.
// Generator, exhaustive part + registration; the templated executor is compiled per capacity group
// (fs_model_[a-d].cpp).
#include "fs_gen.hpp"

namespace fsx {
struct StatsSink : Sink {
  void cls(const char *name) override { verif::stats().cls(name); }
  void cls(const std::string &name) override { verif::stats().cls(name); }
  void nontrivial() override { verif::stats().markNontrivial(); }
  bool kf(const char *id) override { return verif::kf(id); }
  void excl(const char *id) override { verif::stats().excl(id); }
};
Sink &sink() { static StatsSink s; return s; }
}  // namespace fsx

namespace {
using namespace fsx;

std::string runCase(const Case &c) {
  verif::stats().cls("cap." + std::to_string(c.cap));
  switch (groupOf(c.cap)) {
    case 'A': return runModelA(c);
    case 'B': return runModelB(c);
    case 'C': return runModelC(c);
    case 'D': return runModelD(c);
    default: return "capacity " + std::to_string(c.cap) + " is not instantiated";
  }
}

struct Init {
  Init() {
    auto &m = verif::addMode<Case>("ops");
    m.gen = []() { return genCase(true); };
    m.run = runCase;
    m.show = showCase;
    m.parse = parseCase;
    m.enumerator = enumerateModel;
  }
} init;
}  // namespace

// Freed 64 KiB objects would pile up in ASan's default 256 MiB quarantine (> 1 GiB resident per shard);
// use-after-free detection is not what this harness relies on. Options given in ASAN_OPTIONS still win.
extern "C" const char *__asan_default_options() { return "quarantine_size_mb=16"; }

int main(int argc, char **argv) { return verif::harnessMain(argc, argv); }
