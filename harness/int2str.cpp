// C13 - integer-to-string conversions are exact for every integer.
#include "common/verif.hpp"

#include "celma/format/int2string.hpp"
#include "celma/format/grouped_int2string.hpp"
#include "celma/format/string_to.hpp"   // non-inline specialisations: this is the only TU including it

#include <cinttypes>
#include <limits>

using namespace verif;
namespace cf = celma::format;

namespace {

#if defined(__SANITIZE_ADDRESS__)
constexpr bool kAsan = true;
#else
constexpr bool kAsan = false;
#endif

// ---------------------------------------------------------------- independent reference
// plain digit loop on the widened unsigned magnitude
inline int refPlain(char *out, bool neg, uint64_t mag) {
  char tmp[24];
  int n = 0;
  do { tmp[n++] = static_cast<char>('0' + mag % 10); mag /= 10; } while (mag);
  int p = 0;
  if (neg) out[p++] = '-';
  while (n) out[p++] = tmp[--n];
  out[p] = 0;
  return p;
}
// plain text with the group character every three digits from the right, never next to the sign
inline int refGrouped(char *out, const char *plain, int plainLen, char gc) {
  int p = 0, i = 0;
  if (plain[0] == '-') { out[p++] = '-'; i = 1; }
  int digits = plainLen - i;
  for (int d = 0; d < digits; ++d) {
    if (d > 0 && (digits - d) % 3 == 0) out[p++] = gc;
    out[p++] = plain[i + d];
  }
  out[p] = 0;
  return p;
}

const char *const kTypeNames[] = {"int8", "uint8", "int16", "uint16", "int32", "uint32", "int64", "uint64"};

struct Case {
  int type = 0;          // index into kTypeNames
  uint64_t bits = 0;     // value, as two's complement bit pattern of the type
  int gc = '\'';         // group character
};

constexpr unsigned char kCanary = 0xA5;

// checks all four variants + round trip for one value; returns "" or a message
template <class T>
std::string checkValue(T v, char gc, bool heapBuffers) {
  const bool neg = std::is_signed<T>::value && v < 0;
  uint64_t mag;
  if (neg) mag = static_cast<uint64_t>(-(static_cast<int64_t>(v) + 1)) + 1;
  else mag = static_cast<uint64_t>(v);
  char plain[32], grouped[40];
  const int plen = refPlain(plain, neg, mag);
  const int glen = refGrouped(grouped, plain, plen, gc);

  // string variants
  {
    std::string s = cf::int2string(v);
    if (static_cast<int>(s.size()) != plen || memcmp(s.data(), plain, plen) != 0)
      return std::string("int2string() returned \"") + s + "\", expected \"" + plain + "\"";
    std::string g = cf::grouped_int2string(v, gc);
    if (static_cast<int>(g.size()) != glen || memcmp(g.data(), grouped, glen) != 0)
      return std::string("grouped_int2string() returned \"") + g + "\" (length " + std::to_string(g.size()) + "), expected \"" + grouped + "\" (length " + std::to_string(glen) + ", group character code " + std::to_string(static_cast<int>(static_cast<unsigned char>(gc))) + ")";
  }
  // buffer variants: exactly len+1 bytes between canaries
  {
    unsigned char area[16 + 40 + 16];
    memset(area, kCanary, sizeof area);
    char *buf = reinterpret_cast<char *>(area + 16);
    int r = cf::int2string(buf, v);
    if (r != plen) return "int2string(buffer) returned length " + std::to_string(r) + ", expected " + std::to_string(plen);
    if (memcmp(buf, plain, plen + 1) != 0) return std::string("int2string(buffer) wrote wrong text/terminator, expected \"") + plain + "\"";
    for (int i = 0; i < 16; ++i) if (area[i] != kCanary) return "int2string(buffer) wrote before the buffer";
    for (size_t i = 16 + plen + 1; i < sizeof area; ++i) if (area[i] != kCanary) return "int2string(buffer) wrote beyond the terminating NUL";
    memset(area, kCanary, sizeof area);
    r = cf::grouped_int2string(buf, v, gc);
    if (r != glen) return "grouped_int2string(buffer) returned length " + std::to_string(r) + ", expected " + std::to_string(glen);
    if (memcmp(buf, grouped, glen + 1) != 0) return std::string("grouped_int2string(buffer) wrote wrong text/terminator, expected \"") + grouped + "\"";
    for (int i = 0; i < 16; ++i) if (area[i] != kCanary) return "grouped_int2string(buffer) wrote before the buffer";
    for (size_t i = 16 + glen + 1; i < sizeof area; ++i) if (area[i] != kCanary) return "grouped_int2string(buffer) wrote beyond the terminating NUL";
  }
  if (heapBuffers) {   // exact-size heap blocks: ASan sees any byte outside
    std::unique_ptr<char[]> b1(new char[plen + 1]);
    cf::int2string(b1.get(), v);
    std::unique_ptr<char[]> b2(new char[glen + 1]);
    cf::grouped_int2string(b2.get(), v, gc);
  }
  // round trip
  try {
    T back = cf::stringTo<T>(std::string(plain, plen));
    if (back != v) return std::string("stringTo(\"") + plain + "\") does not give the value back";
  } catch (const std::exception &e) {
    return std::string("stringTo(\"") + plain + "\") threw: " + e.what();
  }
  return "";
}

std::string checkBits(int type, uint64_t bits, char gc, bool heap) {
  switch (type) {
    case 0: return checkValue<int8_t>(static_cast<int8_t>(bits), gc, heap);
    case 1: return checkValue<uint8_t>(static_cast<uint8_t>(bits), gc, heap);
    case 2: return checkValue<int16_t>(static_cast<int16_t>(bits), gc, heap);
    case 3: return checkValue<uint16_t>(static_cast<uint16_t>(bits), gc, heap);
    case 4: return checkValue<int32_t>(static_cast<int32_t>(bits), gc, heap);
    case 5: return checkValue<uint32_t>(static_cast<uint32_t>(bits), gc, heap);
    case 6: return checkValue<int64_t>(static_cast<int64_t>(bits), gc, heap);
    case 7: return checkValue<uint64_t>(static_cast<uint64_t>(bits), gc, heap);
  }
  throw std::runtime_error("bad type");
}

int typeBits(int type) { return 8 << (type / 2); }
bool typeSigned(int type) { return type % 2 == 0; }

// non-trivial: needs >= 1 group character (|v| >= 1000) or lies within +-2 of a power of ten
bool nontrivialValue(int type, uint64_t bits) {
  uint64_t mag = bits;
  int nb = typeBits(type);
  if (nb < 64) mag &= (1ULL << nb) - 1;
  if (typeSigned(type) && (mag >> (nb - 1)) & 1) mag = (nb == 64) ? (~mag + 1) : ((1ULL << nb) - mag);
  if (mag >= 1000) return true;
  for (uint64_t p = 1; p <= 1000; p *= 10) if (mag + 2 >= p && mag <= p + 2) return true;
  return false;
}

std::string showCase(const Case &c) {
  Writer w;
  w.tag("int2str").tag(kTypeNames[c.type]).u(c.bits).u(static_cast<uint64_t>(c.gc)).nl();
  // human readable value as comment tokens
  return w.str();
}
Case parseCase(const std::string &t) {
  Reader r(t);
  Case c;
  r.tag();
  std::string tn = r.tag();
  c.type = -1;
  for (int i = 0; i < 8; ++i) if (tn == kTypeNames[i]) c.type = i;
  if (c.type < 0) throw std::runtime_error("bad type name");
  c.bits = r.u();
  c.gc = static_cast<int>(r.u());
  return c;
}
std::string runCase(const Case &c) {
  auto &st = stats();
  std::string m = checkBits(c.type, c.bits, static_cast<char>(c.gc), true);
  st.cls(std::string("type.") + kTypeNames[c.type]);
  if (nontrivialValue(c.type, c.bits)) st.markNontrivial();
  return m.empty() ? m : std::string(kTypeNames[c.type]) + " bits=" + std::to_string(c.bits) + ": " + m;
}

// ---------------------------------------------------------------- generated values (rapidcheck)
rc::Gen<Case> genCase() {
  return rc::gen::exec([]() {
    Case c;
    c.type = *rc::gen::weightedElement<int>({{1, 0}, {1, 1}, {1, 2}, {1, 3}, {4, 4}, {4, 5}, {8, 6}, {8, 7}});
    int nb = typeBits(c.type);
    // bit width uniform, then value uniform below 2^w: all digit counts equally likely
    int w = *range<int>(1, nb);
    uint64_t hi = (w == 64) ? std::numeric_limits<uint64_t>::max() : ((1ULL << w) - 1);
    uint64_t mag = *rc::gen::resize(1000, rc::gen::inRange<uint64_t>(0, hi)) + (*rc::gen::arbitrary<bool>() ? 1 : 0);
    bool neg = typeSigned(c.type) && *rc::gen::arbitrary<bool>();
    c.bits = neg ? (~mag + 1) : mag;
    if (nb < 64) c.bits &= (1ULL << nb) - 1;
    c.gc = *rc::gen::weightedOneOf<int>({{3, just<int>('\'')}, {2, just<int>(',')}, {5, range<int>(32, 126)}, {2, range<int>(0, 255)}, {1, just<int>(0)}});
    return c;
  });
}

// ---------------------------------------------------------------- enumerations
struct Counter { uint64_t evals = 0, nontrivial = 0; };

int failAt(Mode<Case> &m, int type, uint64_t bits, char gc, const std::string &msg) {
  Case c;
  c.type = type; c.bits = bits; c.gc = static_cast<unsigned char>(gc);
  return m.fail(c, std::string(kTypeNames[type]) + " bits=" + std::to_string(bits) + ": " + msg);
}

// all values of the 8 and 16 bit types, 4 group characters each (+ all 256 char values, NUL included, for the 8 bit types)
int enumSmall(Mode<Case> &m) {
  auto &st = stats();
  const char gcs[] = {'\'', ',', '.', ' '};
  for (int type = 0; type < 4; ++type) {
    uint64_t n = 1ULL << typeBits(type);
    for (uint64_t b = 0; b < n; ++b) {
      for (char gc : gcs) {
        std::string msg = checkBits(type, b, gc, kAsan);
        ++st.evaluations;
        if (!msg.empty()) return failAt(m, type, b, gc, msg);
      }
      if (type < 2 || b % 257 == 0)
        for (int gc = 0; gc < 256; ++gc) {
          std::string msg = checkBits(type, b, static_cast<char>(gc), false);
          ++st.evaluations;
          if (!msg.empty()) return failAt(m, type, b, static_cast<char>(gc), msg);
        }
      if (nontrivialValue(type, b)) ++st.countedDistinct;
    }
    st.cls(std::string("enumerated_all_values.") + kTypeNames[type]);
  }
  Case smp; smp.type = 2; smp.bits = 0x8000; smp.gc = '\'';
  st.samples.push_back(showCase(smp));
  return 0;
}

std::vector<uint64_t> boundarySet(int type) {
  // every 10^k +-2, every 2^k +-2, the limits, 0; as bit patterns, both signs for signed types
  std::vector<uint64_t> mags;
  uint64_t p = 1;
  for (int k = 0; k < 20; ++k) { for (int d = -2; d <= 2; ++d) mags.push_back(p + d); if (k < 19) p *= 10; }
  for (int k = 0; k < 64; ++k) for (int d = -2; d <= 2; ++d) mags.push_back((1ULL << k) + d);
  for (int d = 0; d <= 2; ++d) { mags.push_back(0ULL - 1 - d); mags.push_back(d); }
  int nb = typeBits(type);
  std::vector<uint64_t> out;
  uint64_t mask = nb == 64 ? ~0ULL : ((1ULL << nb) - 1);
  for (uint64_t mg : mags) {
    if (typeSigned(type)) {
      uint64_t maxPos = mask >> 1;
      if (mg <= maxPos) out.push_back(mg);
      if (mg <= maxPos + 1) out.push_back((~mg + 1) & mask);
    } else if (mg <= mask) out.push_back(mg);
  }
  std::sort(out.begin(), out.end());
  out.erase(std::unique(out.begin(), out.end()), out.end());
  return out;
}

// boundaries of the 32 and 64 bit types (all 256 group characters, NUL and the non-ASCII ones included), heap buffers when ASan is on
int enumBoundaries(Mode<Case> &m) {
  auto &st = stats();
  for (int type = 4; type < 8; ++type) {
    for (uint64_t b : boundarySet(type)) {
      for (int gc = 0; gc < 256; ++gc) {
        std::string msg = checkBits(type, b, static_cast<char>(gc), kAsan && (gc % 16 == 0));
        ++st.evaluations;
        if (!msg.empty()) return failAt(m, type, b, static_cast<char>(gc), msg);
      }
      if (nontrivialValue(type, b)) ++st.countedDistinct;
      st.cls(std::string("boundary.") + kTypeNames[type]);
    }
  }
  Case smp; smp.type = 6; smp.bits = 1ULL << 63; smp.gc = ',';
  st.samples.push_back(showCase(smp));
  smp.type = 7; smp.bits = 9999999999999999999ULL; st.samples.push_back(showCase(smp));
  st.partial = true;   // a boundary set, not the whole type
  return 0;
}

// 32 bit sweep: stride (quick) or the full range split over shards (thorough). opts: stride, shard, shards
int enumSweep32(Mode<Case> &m) {
  auto &st = stats();
  const uint64_t stride = static_cast<uint64_t>(opt("stride", 1));
  const uint64_t shards = static_cast<uint64_t>(opt("shards", 1));
  const uint64_t shard = static_cast<uint64_t>(opt("shard", 0));
  const uint64_t total = 1ULL << 32;
  const uint64_t lo = total / shards * shard;
  const uint64_t hi = (shard + 1 == shards) ? total : total / shards * (shard + 1);
  const char gcs[] = {'\'', ',', '.', '_'};
  uint64_t first = lo + (stride > 1 ? (shard * 7 + static_cast<uint64_t>(opt("offset", 0))) % stride : 0);
  for (uint64_t b = first; b < hi; b += stride) {
    char gc = gcs[(b >> 3) & 3];
    for (int type = 4; type <= 5; ++type) {
      std::string msg = checkBits(type, b, gc, false);
      if (!msg.empty()) return failAt(m, type, b, gc, msg);
      if (nontrivialValue(type, b)) ++st.countedDistinct;
    }
    st.evaluations += 2;
  }
  st.cls("sweep32.values_per_type", (hi - first + stride - 1) / stride);
  if (stride != 1) st.cls("sweep32.strided");
  Case smp; smp.type = 4; smp.bits = first + stride * 1000 < hi ? first + stride * 1000 : first; smp.gc = '\'';
  st.samples.push_back(showCase(smp));
  st.partial = stride != 1;   // only a stride-1 sweep is exhaustive
  return 0;
}

// 64 bit: deterministic low-discrepancy walk (k * odd constant mod 2^64) over the whole range,
// opts: count, shard, shards. A sample, never exhaustive.
int enumSweep64(Mode<Case> &m) {
  auto &st = stats();
  const uint64_t count = static_cast<uint64_t>(opt("count", 1000000));
  const uint64_t shards = static_cast<uint64_t>(opt("shards", 1));
  const uint64_t shard = static_cast<uint64_t>(opt("shard", 0));
  const uint64_t base = static_cast<uint64_t>(opt("offset", 0)) + shard * count;
  const char gcs[] = {'\'', ',', '.', '_'};
  for (uint64_t k = 0; k < count; ++k) {
    uint64_t b = (base + k) * 0x9E3779B97F4A7C15ULL;
    // vary the magnitude too: shift right by k mod 64 so that every digit count is visited
    b >>= (k % 61);
    char gc = gcs[k & 3];
    for (int type = 6; type <= 7; ++type) {
      for (int sign = 0; sign < (type == 6 ? 2 : 1); ++sign) {
        uint64_t v = sign ? (~b + 1) : b;
        std::string msg = checkBits(type, v, gc, false);
        if (!msg.empty()) return failAt(m, type, v, gc, msg);
        if (nontrivialValue(type, v)) ++st.countedDistinct;
        ++st.evaluations;
      }
    }
  }
  st.cls("sweep64.values", count);
  Case smp; smp.type = 6; smp.bits = (base + 12345) * 0x9E3779B97F4A7C15ULL; smp.gc = '.';
  st.samples.push_back(showCase(smp));
  st.partial = true;
  (void)shards;
  return 0;
}

struct Init {
  Init() {
    auto &r = addMode<Case>("rand");
    r.gen = genCase; r.run = runCase; r.show = showCase; r.parse = parseCase;
    auto &s = addMode<Case>("small");
    s.gen = genCase; s.run = runCase; s.show = showCase; s.parse = parseCase; s.customEnum = enumSmall;
    auto &b = addMode<Case>("boundaries");
    b.gen = genCase; b.run = runCase; b.show = showCase; b.parse = parseCase; b.customEnum = enumBoundaries;
    auto &w = addMode<Case>("sweep32");
    w.gen = genCase; w.run = runCase; w.show = showCase; w.parse = parseCase;
    w.customEnum = enumSweep32;
    auto &w64 = addMode<Case>("sweep64");
    w64.gen = genCase; w64.run = runCase; w64.show = showCase; w64.parse = parseCase; w64.customEnum = enumSweep64;
  }
} init;

}  // namespace

int main(int argc, char **argv) {
  int r = harnessMain(argc, argv);
  return r;
}
