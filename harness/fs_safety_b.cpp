// C10 executor instantiations for capacity group B (see FS_CAPS_B in fs_common.hpp).
#define FS_NO_RAPIDCHECK
#include "fs_exec.hpp"

namespace fsx {
std::string runSafetyB(const Case &c) {
  switch (c.cap) {
#define X(n) case n: { Exec<n, false> e(c); return e.run(); }
    FS_CAPS_B(X)
#undef X
    default: break;
  }
  return "capacity is not instantiated";
}
}  // namespace fsx
