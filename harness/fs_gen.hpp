// rapidcheck generators and the bounded exhaustive enumeration for the FixedString harnesses.
#pragma once

#include "fs_common.hpp"

namespace fsx {

using verif::just;
using verif::range;

struct WNum { int w; Num n; };

inline Num pickNum(const std::vector<WNum> &menu) {
  size_t total = 0;
  for (auto &e : menu) total += static_cast<size_t>(e.w);
  size_t r = *range<size_t>(0, total - 1);
  for (auto &e : menu) {
    if (r < static_cast<size_t>(e.w)) return e.n;
    r -= static_cast<size_t>(e.w);
  }
  return menu.back().n;
}

// boundary-biased values for the C10 harness: everything, far beyond the capacity included
inline Num genAnyNum(uint64_t cap) {
  const int64_t L = static_cast<int64_t>(cap);
  int pick = *rc::gen::weightedElement<int>({{30, 0}, {6, 1}, {3, 2}, {3, 3}, {2, 4}});
  switch (pick) {
    case 0:
      return pickNum({{2, num('z', 0)}, {2, num('z', 1)}, {2, num('l', -1)}, {3, num('l', 0)}, {2, num('l', 1)}, {1, num('c', -1)},
                      {2, num('c', 0)}, {2, num('c', 1)}, {1, num('c', L)}, {1, num('r', -1)}, {2, num('r', 0)}, {2, num('r', 1)},
                      {1, num('s', -1)}, {1, num('s', 0)}, {1, num('s', 1)}, {1, num('n', -1)}, {3, num('n', 0)}, {1, num('z', 2)},
                      {1, num('l', -2)}, {1, num('r', 2)}});
    case 1: return num('z', static_cast<int64_t>(*range<uint64_t>(0, cap + 8 > 80 ? 80 : cap + 8)));
    case 2: return num('z', static_cast<int64_t>(*range<uint64_t>(0, cap + 8)));
    case 3: return num('n', -static_cast<int64_t>(*range<uint64_t>(0, cap + 8)));   // pos + count wraps around
    default: return pickNum({{1, num('z', 255)}, {1, num('z', 256)}, {1, num('z', 65535)}, {1, num('z', 65536)}, {1, num('z', 1000000)},
                             {1, num('n', -255)}, {1, num('n', -256)}, {1, num('n', -65536)}, {1, num('z', INT64_MAX)}, {1, num('z', INT64_MIN)}});
  }
}

inline Num genSmall(uint64_t hi) { return num('z', static_cast<int64_t>(*range<uint64_t>(0, hi))); }

inline Num genRoleNum(Role r, bool model, uint64_t cap) {
  if (r == R_NONE) return Num();
  if (r == R_INT) return pickNum({{2, num('z', 0)}, {1, num('z', -1)}, {1, num('z', INT32_MAX)}, {1, num('z', INT32_MIN)}, {2, genSmall(100000)},
                                  {2, num('z', -static_cast<int64_t>(*range<uint64_t>(0, 100000)))}, {2, genSmall(9)}});
  if (r == R_SCNTLE) return pickNum({{3, num('s', 0)}, {1, num('s', -1)}, {2, genSmall(4)}, {1, num('n', 0)}, {1, num('z', 1)}});
  if (!model) return genAnyNum(cap);
  const uint64_t capS = cap > 40 ? 40 : cap;   // small absolute values stay useful for large capacities too
  switch (r) {
    case R_POS: case R_POSLT:
      return pickNum({{3, num('z', 0)}, {1, num('z', 1)}, {3, num('l', 0)}, {3, num('l', -1)}, {1, num('l', -2)}, {2, genSmall(capS)}, {2, genSmall(cap)},
                      {1, num('c', -1)}, {1, num('l', -static_cast<int64_t>(*range<uint64_t>(0, capS)))}});
    case R_IDX:
      return pickNum({{3, genSmall(capS)}, {2, num('l', -1)}, {2, num('l', 1)}, {1, num('l', 5)}, {1, num('n', 0)}, {1, num('z', 0)}, {1, num('c', 1)}});
    case R_CNT:
      return pickNum({{2, num('z', 0)}, {3, num('z', 1)}, {2, num('z', 2)}, {1, num('l', 0)}, {1, num('l', 1)}, {1, num('l', -1)}, {3, num('n', 0)},
                      {3, genSmall(capS + 2)}, {1, genSmall(cap + 2)}, {1, num('r', 0)}, {1, num('n', -1)}});
    case R_ICNT:
      return pickNum({{1, num('z', 0)}, {3, num('z', 1)}, {2, num('z', 2)}, {2, num('r', 0)}, {2, num('r', 1)}, {1, num('r', -1)}, {1, num('c', 0)},
                      {1, num('c', 1)}, {3, genSmall(capS + 8)}, {1, genSmall(cap + 8)}});
    case R_LAST:
      return pickNum({{4, num('l', 0)}, {2, genSmall(capS)}, {1, genSmall(cap)}, {2, num('l', -1)}, {1, num('z', 0)}});
    case R_SPOS: case R_SPOSLT:
      return pickNum({{4, num('z', 0)}, {1, num('s', 0)}, {2, num('s', -1)}, {3, genSmall(8)}, {1, num('z', 1)}});
    case R_SLAST:
      return pickNum({{4, num('s', 0)}, {3, genSmall(8)}, {1, num('s', -1)}, {1, genSmall(cap)}});
    case R_SCNT:
      return pickNum({{4, num('n', 0)}, {1, num('z', 0)}, {2, num('z', 1)}, {1, num('s', 0)}, {1, num('s', 1)}, {3, genSmall(8)}, {1, num('r', 0)},
                      {1, num('r', 1)}, {1, genSmall(cap + 2)}});
    case R_RPOSLE: case R_RPOSLT:
      return pickNum({{4, num('n', 0)}, {1, num('z', 0)}, {2, num('l', -1)}, {2, num('l', 0)}, {2, genSmall(capS)}, {1, genSmall(cap)}, {1, num('l', -2)}});
    default: return Num();
  }
}

inline std::string genPattern(int alpha, size_t maxLen) {
  size_t n = *range<size_t>(1, maxLen);
  std::string s;
  for (size_t i = 0; i < n; ++i) {
    if (alpha == 0) s += static_cast<char>('a' + *range<int>(0, 1));
    else if (alpha == 1) s += static_cast<char>('a' + *range<int>(0, 2));
    else s += static_cast<char>(*range<int>(0x20, 0x7e));
  }
  return s;
}
inline int genChar(int alpha) {
  if (alpha == 0) return 'a' + *range<int>(0, 1);
  if (alpha == 1) return 'a' + *range<int>(0, 2);
  return *range<int>(0x20, 0x7e);
}

inline Num genTextLen(bool pattern, bool model, uint64_t cap) {
  const int64_t L = static_cast<int64_t>(cap);
  (void)L;
  if (pattern)   // search patterns / character sets: mostly short so that they can occur
    return pickNum({{6, genSmall(3)}, {1, num('z', 0)}, {2, num('z', 1)}, {1, num('l', 0)}, {1, num('l', 1)}, {1, num('l', -1)}, {1, genSmall(cap + 2)}});
  std::vector<WNum> menu = {{2, num('z', 0)}, {5, genSmall(4)}, {2, num('r', -1)}, {3, num('r', 0)}, {3, num('r', 1)}, {1, num('l', 0)},
                            {1, num('c', -1)}, {2, num('c', 0)}, {2, num('c', 1)}, {1, num('c', 300)}, {3, genSmall(cap + 8)},
                            {1, num('z', 254)}, {1, num('z', 255)}, {1, num('z', 256)}, {1, num('z', 257)}, {1, num('z', 299)}, {1, num('z', 300)}, {1, num('z', 301)}};
  if (cap >= 1000) { menu.push_back({1, num('z', 70000)}); menu.push_back({1, num('z', 65536)}); menu.push_back({1, num('z', 65535)}); menu.push_back({1, num('z', 70001)}); }
  (void)model;
  return pickNum(menu);
}

inline int genKind(bool model) {
  // weights per kind: mutators that add text are favoured a little so that the capacity is reached
  static std::vector<std::pair<size_t, int>> safety, modelv;
  if (safety.empty()) {
    for (int k = 0; k < K_COUNT; ++k) {
      const OpInfo &i = opInfo(k);
      size_t w = i.mutator ? 4 : 2;
      std::string n = i.name;
      if (n.compare(0, 5, "ctor_") == 0 || n == "clear" || n == "peer_assign") w = 1;
      if (n.compare(0, 7, "insert_") == 0 || n.compare(0, 5, "repl_") == 0) w = 6;
      if (n == "swap" || n == "substr" || n == "copy" || n == "sprintf") w = 4;
      if (n == "iter_walk") { safety.emplace_back(4, k); continue; }
      if (n == "iter_fwd" || n == "iter_rev") w = 1;
      safety.emplace_back(w, k);
      modelv.emplace_back(w, k);
    }
  }
  const auto &tab = model ? modelv : safety;
  size_t total = 0;
  for (auto &e : tab) total += e.first;
  size_t r = *range<size_t>(0, total - 1);
  for (auto &e : tab) {
    if (r < e.first) return e.second;
    r -= e.first;
  }
  return tab.back().second;
}

inline Op genOp(bool model, uint64_t cap, int alpha, int forcedKind = -1) {
  Op o;
  o.kind = forcedKind >= 0 ? forcedKind : genKind(model);
  const OpInfo &i = opInfo(o.kind);
  if (i.strFlags & S_USED) {
    const bool pattern = (i.strFlags & S_NONEMPTY) != 0;
    o.s = genPattern(alpha, pattern ? 3 : 5);
    o.sl = genTextLen(pattern, model, cap);
    if (!model && !(i.strFlags & S_NONUL) && *range<int>(0, 39) == 0) o.s[*range<size_t>(0, o.s.size() - 1)] = '\0';
  }
  o.a = genRoleNum(i.r[0], model, cap);
  o.b = genRoleNum(i.r[1], model, cap);
  o.c = genRoleNum(i.r[2], model, cap);
  o.d = genRoleNum(i.r[3], model, cap);
  o.ch = i.usesCh ? genChar(alpha) : 'x';
  if (i.usesCh && !model && *range<int>(0, 49) == 0) o.ch = 0;
  o.v = i.variants > 1 ? *range<int>(0, i.variants - 1) : 0;
  if (i.srcMask) {
    std::vector<int> allowed;
    for (int s = 0; s < 6; ++s) if (i.srcMask & (1 << s)) allowed.push_back(s);
    o.src = *rc::gen::elementOf(allowed);
    if (o.src == SRC_FS70000 && cap < 1000 && *range<int>(0, 9) != 0) o.src = SRC_FS300;   // same code path for small L, 70 KB per use
  }
  return o;
}

inline rc::Gen<Case> genCase(bool model) {
  return rc::gen::exec([model]() {
    Case c;
    const long forced = verif::opt("cap", 0);
    if (forced > 0) c.cap = static_cast<uint64_t>(forced);
    else
      c.cap = *rc::gen::weightedElement<uint64_t>({{5, 1}, {6, 2}, {6, 3}, {6, 4}, {6, 5}, {6, 7}, {8, 8}, {6, 16}, {6, 31}, {8, 255}, {8, 256},
                                                   {2, 1000}, {1, 65535}, {1, 65536}});
    const int64_t L = static_cast<int64_t>(c.cap);
    c.place = *rc::gen::weightedElement<int>({{3, 0}, {1, 1}});
    const int alpha = *rc::gen::weightedElement<int>({{3, 0}, {3, 1}, {2, 2}});
    c.init = genPattern(alpha, 6);
    c.il = pickNum({{2, num('z', 0)}, {2, genSmall(3)}, {2, num('c', -1)}, {3, num('c', 0)}, {1, num('c', 1)}, {1, num('c', -2)}, {4, genSmall(c.cap)},
                    {1, num('c', L)}});
    c.pinit = genPattern(alpha, 6);
    c.pl = pickNum({{2, num('z', 0)}, {2, genSmall(3)}, {2, num('c', 0)}, {1, num('c', -1)}, {3, genSmall(c.cap)}});
    // operations on 64 KiB strings cost milliseconds each under ASan: short sequences there
    size_t nops = *range<size_t>(1, c.cap >= 65535 ? 6 : model ? 30 : 40);
    for (size_t k = 0; k < nops; ++k) c.ops.push_back(genOp(model, c.cap, alpha));
    return c;
  });
}

// ---------------------------------------------------------------------------------- exhaustive part (C11)
// Every content over {a,b} of length 0..L (L <= maxCap) x every operation x every variant x every allowed
// source object x every in-domain argument tuple in small ranges x every source text over {a,b} of
// length 0..3. Single-operation cases, evaluated by the same run() as generated ones.
inline std::vector<std::string> abStrings(size_t lo, size_t hi) {
  std::vector<std::string> r;
  for (size_t n = lo; n <= hi; ++n)
    for (unsigned bits = 0; bits < (1u << n); ++bits) {
      std::string s;
      for (size_t i = 0; i < n; ++i) s += ((bits >> i) & 1) ? 'b' : 'a';
      r.push_back(s);
    }
  return r;
}

inline std::vector<Num> roleValues(Role r, size_t len, size_t srcLen, size_t cap, uint64_t first, bool safety = false) {
  std::vector<Num> v;
  auto rangeZ = [&](uint64_t lo, uint64_t hi) { for (uint64_t k = lo; k <= hi && hi != UINT64_MAX; ++k) v.push_back(num('z', static_cast<int64_t>(k))); };
  if (safety && r != R_NONE && r != R_SCNTLE && r != R_INT) {
    // C10 grid: everything from 0 to two behind the larger of length/source length/capacity, and the wrap-around values
    rangeZ(0, std::max(std::max(len, srcLen), cap) + 2);
    v.push_back(num('n', -1));
    v.push_back(num('n', 0));
    return v;
  }
  switch (r) {
    case R_NONE: v.push_back(Num()); break;
    case R_POS: rangeZ(0, len); break;
    case R_POSLT: if (len) rangeZ(0, len - 1); break;
    case R_IDX: if (len) rangeZ(0, len - 1); v.push_back(num('l', 1)); v.push_back(num('l', 2)); v.push_back(num('n', 0)); break;
    case R_CNT: rangeZ(0, len + 1); v.push_back(num('n', 0)); break;
    case R_ICNT: rangeZ(0, cap + 1); break;
    case R_LAST: rangeZ(first + 1, len); break;
    case R_SPOS: rangeZ(0, srcLen); break;
    case R_SPOSLT: if (srcLen) rangeZ(0, srcLen - 1); break;
    case R_SLAST: rangeZ(first + 1, srcLen); break;
    case R_SCNT: rangeZ(0, srcLen + 1); v.push_back(num('n', 0)); break;
    case R_SCNTLE: rangeZ(0, srcLen); break;
    case R_RPOSLE: rangeZ(0, len); v.push_back(num('n', 0)); break;
    case R_RPOSLT: if (len) rangeZ(0, len - 1); v.push_back(num('n', 0)); break;
    case R_INT: v.push_back(num('z', 0)); v.push_back(num('z', 7)); v.push_back(num('z', -12)); v.push_back(num('z', 123456)); break;
  }
  return v;
}

inline void enumerateCases(bool safety, const std::function<bool(const Case &)> &cb) {
  const size_t maxCap = static_cast<size_t>(verif::opt("maxcap", safety ? 2 : 3));
  const size_t maxText = static_cast<size_t>(verif::opt("maxtext", safety ? 2 : 3));
  const uint64_t shards = static_cast<uint64_t>(verif::opt("shards", 1)), shard = static_cast<uint64_t>(verif::opt("shard", 0));
  const std::string peerText = "ba";
  uint64_t counter = 0;
  const std::vector<std::string> texts = abStrings(0, maxText);
  for (size_t cap = 1; cap <= maxCap; ++cap) {
    for (const std::string &init : abStrings(0, cap)) {
      const size_t len = init.size();
      const size_t peerLen = std::min(peerText.size(), cap);
      for (int kind = 0; kind < K_COUNT; ++kind) {
        const OpInfo &info = opInfo(kind);
        if (kind == K_iter_walk && !safety) continue;
        std::vector<int> srcs;
        if (info.srcMask) { for (int s : {int(SRC_FS4), int(SRC_PEER), int(SRC_SELF), int(SRC_TEMPL)}) if (info.srcMask & (1 << s)) srcs.push_back(s); }
        else srcs.push_back(0);
        for (int src : srcs) {
          const bool fixedSource = info.srcMask && (src == SRC_PEER || src == SRC_SELF);
          std::vector<std::string> tx;
          if (!(info.strFlags & S_USED) || fixedSource) tx.push_back("");
          else for (auto &t : texts) if (safety || !(info.strFlags & S_NONEMPTY) || !t.empty()) tx.push_back(t);
          for (const std::string &t : tx) {
            size_t srcLen = t.size();
            if (info.srcMask) {
              if (src == SRC_PEER) srcLen = peerLen;
              else if (src == SRC_SELF) srcLen = len;
              else if (src == SRC_TEMPL) srcLen = std::min(t.size(), cap);
              else srcLen = std::min<size_t>(t.size(), kSrcCap0);
            }
            // iter_walk: iterator type x first step kind (the following two steps are "none"), start and step value from the grid
            const int variants = kind == K_iter_walk ? 32 : info.variants;
            for (int vv = 0; vv < variants; ++vv) {
              const int v = kind == K_iter_walk ? (vv | (6 << 5) | (6 << 8)) : vv;
              for (int ch : {int('a'), int('b')}) {
                if (!info.usesCh && ch == 'b') continue;
                for (const Num &a : roleValues(info.r[0], len, srcLen, cap, 0, safety))
                  for (const Num &b : roleValues(info.r[1], len, srcLen, cap, static_cast<uint64_t>(a.off), safety))
                    for (const Num &cc : roleValues(kind == K_iter_walk ? R_NONE : info.r[2], len, srcLen, cap, 0, safety))
                      for (const Num &d : roleValues(kind == K_iter_walk ? R_NONE : info.r[3], len, srcLen, cap, static_cast<uint64_t>(cc.off), safety)) {
                        if (shards > 1 && (counter++ % shards) != shard) continue;
                        Case c;
                        c.cap = cap;
                        c.place = 0;
                        c.init = init; c.il = num('z', static_cast<int64_t>(len));
                        c.pinit = peerText; c.pl = num('z', static_cast<int64_t>(peerText.size()));
                        Op o;
                        o.kind = kind; o.a = a; o.b = b; o.c = cc; o.d = d;
                        o.s = t; o.sl = num('z', static_cast<int64_t>(t.size()));
                        o.ch = ch; o.v = v; o.src = src;
                        c.ops.push_back(o);
                        if (!cb(c)) return;
                      }
              }
            }
          }
        }
      }
    }
  }
}

}  // namespace fsx

namespace fsx {
inline void enumerateModel(const std::function<bool(const Case &)> &cb) { enumerateCases(false, cb); }
inline void enumerateSafety(const std::function<bool(const Case &)> &cb) { enumerateCases(true, cb); }
}  // namespace fsx
