// C19 - ReadBuffer / WriteBuffer preserve the byte stream for every chunking.
#include "common/verif.hpp"

#include "celma/common/read_buffer.hpp"
#include "celma/common/write_buffer.hpp"

using namespace verif;

namespace {

const size_t kSizes[] = {1, 2, 3, 4, 5, 8, 16, 64};

// ------------------------------------------------------------------ read side
struct ReadCase {
  size_t n = 1;                     // buffer size (one of kSizes)
  size_t srcLen = 0;                // source = bytes (i*7+3)&0xff ...
  std::vector<size_t> chunks;       // cyclic script of delivery sizes; 0 = deliver the full request
  std::vector<int64_t> gets;        // request lengths; -1 = get(nullptr, 1); -2 = get(nullptr, 0)
};

inline unsigned char srcByte(size_t i) { return static_cast<unsigned char>((i * 131 + 7) ^ (i >> 8)); }

template <size_t N>
struct ScriptedReader : celma::common::ReadBuffer<N, celma::common::ReadCountPolicy> {
  const ReadCase *c = nullptr;
  size_t pos = 0, call = 0;
  std::string problem;
  size_t readData(unsigned char *data, size_t len) override {
    if (len == 0) { problem = "readData() called with length 0"; throw std::logic_error(problem); }
    if (len > N) { problem = "readData() asked for more than the buffer size"; throw std::logic_error(problem); }
    // touch the whole span that was offered: ASan checks it lies inside the internal buffer
    memset(data, 0xEE, len);
    size_t want = c->chunks.empty() ? 0 : c->chunks[call % c->chunks.size()];
    ++call;
    size_t give = (want == 0 || want > len) ? len : want;
    size_t left = c->srcLen - pos;
    if (give > left) give = left;
    if (give == 0) { problem = "source exhausted although the requests fit (buffer lost or duplicated data)"; throw std::logic_error(problem); }
    for (size_t i = 0; i < give; ++i) data[i] = srcByte(pos + i);
    pos += give;
    return give;
  }
};

template <size_t N>
std::string runRead(const ReadCase &c) {
  auto &st = stats();
  ScriptedReader<N> rb;
  rb.c = &c;
  size_t consumed = 0;
  bool refillWithData = false;
  for (size_t gi = 0; gi < c.gets.size(); ++gi) {
    int64_t g = c.gets[gi];
    std::string where = "get #" + std::to_string(gi) + " len " + std::to_string(g) + ": ";
    if (g == -2) {
      try { rb.template get<unsigned char>(nullptr, 0); } catch (...) { return where + "get(nullptr,0) threw"; }
      continue;
    }
    if (g == -1) {
      size_t before = rb.pos;
      try { rb.template get<unsigned char>(nullptr, 1); return where + "get(nullptr,1) was not refused"; }
      catch (const std::logic_error &e) { return where + e.what(); }
      catch (const std::exception &) {}
      if (rb.pos != before) return where + "refused request consumed source data";
      st.cls("read.refused_null");
      continue;
    }
    size_t len = static_cast<size_t>(g);
    if (len > N) {
      size_t before = rb.pos;
      std::unique_ptr<unsigned char[]> dst(new unsigned char[len]);
      try { rb.get(dst.get(), len); return where + "request larger than the buffer was not refused"; }
      catch (const std::logic_error &e) { return where + e.what(); }
      catch (const std::exception &) {}
      if (rb.pos != before) return where + "refused request consumed source data";
      st.cls("read.refused_too_long");
      continue;
    }
    if (consumed + len > c.srcLen) break;   // generator keeps requests inside the source; defensive
    size_t callsBefore = rb.call;
    size_t buffered = rb.pos - consumed;
    std::unique_ptr<unsigned char[]> dst(new unsigned char[len ? len : 1]);   // exact-size block (ASan)
    try { rb.get(dst.get(), len); }
    catch (const std::exception &e) { return where + "threw: " + e.what(); }
    for (size_t i = 0; i < len; ++i)
      if (dst[i] != srcByte(consumed + i))
        return where + "byte " + std::to_string(i) + " differs from source offset " + std::to_string(consumed + i);
    consumed += len;
    if (rb.pos < consumed) return where + "returned bytes that were never read from the source";
    if (rb.call != callsBefore) {
      st.cls("read.refill");
      if (buffered > 0) { st.cls("read.refill_with_buffered_data"); refillWithData = true; }
      if (rb.call - callsBefore > 1) st.cls("read.refill_multi_chunk");
    } else if (len) st.cls("read.from_buffer");
  }
  if (!rb.problem.empty()) return rb.problem;
  if (rb.bytesReadFromBuffer() != consumed) return "policy bytesReadFromBuffer() != bytes returned";
  if (rb.bytesReadFromSource() != rb.pos) return "policy bytesReadFromSource() != bytes delivered by source";
  if (refillWithData) st.markNontrivial();
  return "";
}

std::string runReadCase(const ReadCase &c) {
  switch (c.n) {
    case 1: return runRead<1>(c);
    case 2: return runRead<2>(c);
    case 3: return runRead<3>(c);
    case 4: return runRead<4>(c);
    case 5: return runRead<5>(c);
    case 8: return runRead<8>(c);
    case 16: return runRead<16>(c);
    case 64: return runRead<64>(c);
  }
  throw std::runtime_error("bad buffer size");
}

std::string showRead(const ReadCase &c) {
  Writer w;
  w.tag("read").u(c.n).u(c.srcLen).nl();
  w.tag("chunks").u(c.chunks.size());
  for (auto v : c.chunks) w.u(v);
  w.nl().tag("gets").u(c.gets.size());
  for (auto v : c.gets) w.i(v);
  w.nl();
  return w.str();
}
ReadCase parseRead(const std::string &t) {
  Reader r(t);
  ReadCase c;
  r.tag(); c.n = r.u(); c.srcLen = r.u();
  r.tag(); size_t k = r.u(); for (size_t i = 0; i < k; ++i) c.chunks.push_back(r.u());
  r.tag(); k = r.u(); for (size_t i = 0; i < k; ++i) c.gets.push_back(r.i());
  return c;
}

rc::Gen<ReadCase> genRead() {
  return rc::gen::exec([]() {
    ReadCase c;
    c.n = *rc::gen::elementOf(std::vector<size_t>(std::begin(kSizes), std::end(kSizes)));
    size_t n = c.n;
    size_t nget = *range<size_t>(1, 14);
    size_t total = 0;
    for (size_t i = 0; i < nget; ++i) {
      int kind = *rc::gen::weightedElement<int>({{14, 0}, {1, 1}, {1, 2}, {1, 3}});
      if (kind == 1) c.gets.push_back(static_cast<int64_t>(n + *range<size_t>(1, 3)));
      else if (kind == 2) c.gets.push_back(-1);
      else if (kind == 3) c.gets.push_back(-2);
      else {
        // boundary biased: 0, 1, N-1, N, uniform
        size_t len = *rc::gen::weightedOneOf<size_t>({{1, just<size_t>(0)}, {2, just<size_t>(1)},
                                                      {2, just<size_t>(n)}, {2, just<size_t>(n - 1)},
                                                      {6, range<size_t>(0, n)}});
        c.gets.push_back(static_cast<int64_t>(len));
        total += len;
      }
    }
    c.srcLen = total + *range<size_t>(0, 2 * n);
    size_t nch = *range<size_t>(0, 5);
    for (size_t i = 0; i < nch; ++i)
      c.chunks.push_back(*rc::gen::weightedOneOf<size_t>({{2, just<size_t>(0)}, {3, just<size_t>(1)},
                                                          {4, range<size_t>(1, n)}}));
    return c;
  });
}

// exhaustive: N <= 3, up to 5 gets of length 0..N+1, chunk scripts {full},{1},{1,full},{2},{full,1}
void enumRead(const std::function<bool(const ReadCase &)> &cb) {
  const std::vector<std::vector<size_t>> scripts = {{0}, {1}, {1, 0}, {2}, {0, 1}, {2, 1}};
  for (size_t n : {size_t(1), size_t(2), size_t(3)}) {
    for (size_t k = 1; k <= 5; ++k) {
      std::vector<size_t> g(k, 0);
      for (;;) {
        for (auto &sc : scripts)
          for (size_t slack : {size_t(0), size_t(1), n}) {
            ReadCase c;
            c.n = n;
            c.chunks = sc;
            size_t tot = 0;
            for (auto v : g) { c.gets.push_back(static_cast<int64_t>(v)); if (v <= n) tot += v; }
            c.srcLen = tot + slack;
            if (!cb(c)) return;
          }
        size_t i = 0;
        while (i < k && ++g[i] > n + 1) g[i++] = 0;
        if (i == k) break;
      }
    }
  }
}

// ------------------------------------------------------------------ write side
struct WriteCase {
  size_t n = 1;
  std::vector<int64_t> ops;   // >=0 append(len); -1 flush; -2 append(nullptr,1); -3 append(nullptr,0)
  std::vector<size_t> failCalls;   // fault injection: these calls of writeData() (0-based, counted over all calls) throw
};

// writeData() is documented to throw when it cannot write the data; a failing call consumes nothing
struct SinkFailure : std::runtime_error { SinkFailure() : std::runtime_error("injected sink failure") {} };

template <size_t N>
struct RecordingWriter : celma::common::WriteBuffer<N, celma::common::WriteCountPolicy> {
  mutable std::string sink;
  mutable std::string problem;
  mutable size_t calls = 0;
  mutable size_t maxLen = 0;
  const std::vector<size_t> *failCalls = nullptr;
  void writeData(const unsigned char *const data, size_t len) const override {
    const size_t thisCall = calls;
    ++calls;
    if (failCalls && std::find(failCalls->begin(), failCalls->end(), thisCall) != failCalls->end()) throw SinkFailure();
    if (len == 0) problem = "writeData() called with length 0";
    if (len > maxLen) maxLen = len;
    sink.append(reinterpret_cast<const char *>(data), len);   // reads the whole span (ASan)
  }
};

template <size_t N>
std::string runWrite(const WriteCase &c) {
  auto &st = stats();
  RecordingWriter<N> wb;
  wb.failCalls = &c.failCalls;
  std::string all;      // everything appended so far
  size_t counter = 0;
  bool forced = false, injected = false;
  size_t largest = 0;
  // the sink failed during an operation: nothing may be lost - what was accepted before is still either in the sink
  // or in the buffer, in order; the caller then repeats the operation
  auto afterFailure = [&](const std::string &where) -> std::string {
    injected = true;
    st.cls("write.sink_failure_retried");
    if (wb.sink.size() + wb.buffered() != all.size()) return where + "after a failed write to the sink, sink bytes + buffered() != bytes accepted so far (data lost or duplicated)";
    if (all.compare(0, wb.sink.size(), wb.sink) != 0) return where + "after a failed write the sink content is not a prefix of the appended bytes";
    return "";
  };
  for (size_t oi = 0; oi < c.ops.size(); ++oi) {
    int64_t op = c.ops[oi];
    std::string where = "op #" + std::to_string(oi) + " (" + std::to_string(op) + "): ";
    size_t sinkBefore = wb.sink.size(), bufBefore = wb.buffered();
    try {
      if (op == -1) {
        for (int attempt = 0;; ++attempt) {
          try { wb.flush(); break; }
          catch (const SinkFailure &) { if (attempt > 6) return where + "sink keeps failing"; std::string p = afterFailure(where); if (!p.empty()) return p; }
        }
        if (wb.buffered() != 0) return where + "buffered() != 0 after flush()";
        st.cls("write.flush");
      } else if (op == -2) {
        try { wb.template append<unsigned char>(nullptr, 1); return where + "append(nullptr,1) not refused"; }
        catch (const SinkFailure &) { return where + "append(nullptr,1) reached the sink"; }
        catch (const std::exception &) {}
      } else if (op == -3) {
        wb.template append<unsigned char>(nullptr, 0);
      } else {
        size_t len = static_cast<size_t>(op);
        std::unique_ptr<unsigned char[]> src(new unsigned char[len ? len : 1]);   // exact-size (ASan)
        for (size_t i = 0; i < len; ++i) src[i] = static_cast<unsigned char>('a' + (counter++ % 23));
        if (len > largest) largest = len;
        for (int attempt = 0;; ++attempt) {
          // append() is a template on the element type of the caller's pointer; the length is always a byte count
          try {
            const int typeSel = static_cast<int>((oi + len) % 4);
            if (typeSel == 2) { wb.append(reinterpret_cast<const uint16_t *>(src.get()), len); st.cls("write.typed_pointer"); }
            else if (typeSel == 3) { wb.append(reinterpret_cast<const uint32_t *>(src.get()), len); st.cls("write.typed_pointer"); }
            else wb.append(src.get(), len);
            if (typeSel >= 2 && len >= N && bufBefore > 0) st.cls("write.typed_pointer_oversized_block_on_filled_buffer");
            break;
          }
          catch (const SinkFailure &) {
            if (attempt > 6) return where + "sink keeps failing";
            std::string p = afterFailure(where);
            if (!p.empty()) return p;
            bufBefore = wb.buffered();
          }
        }
        all.append(reinterpret_cast<const char *>(src.get()), len);
        if (len >= N) {
          st.cls("write.pass_through");
          if (wb.buffered() != 0) return where + "oversized block: buffered() != 0 afterwards";
          if (wb.sink.size() != all.size()) return where + "oversized block not passed through completely";
        } else if (len > 0 && bufBefore + len > N) {
          st.cls("write.forced_flush");
          forced = true;
        } else if (len > 0) st.cls("write.buffered");
      }
    } catch (const std::exception &e) {
      return where + "threw: " + e.what();
    }
    if (!wb.problem.empty()) return where + wb.problem;
    // invariant: sink ++ buffered tail == all appended bytes
    size_t b = wb.buffered();
    if (b > N) return where + "buffered() exceeds the buffer size";
    if (wb.sink.size() + b != all.size()) return where + "sink bytes + buffered() != appended bytes";
    if (all.compare(0, wb.sink.size(), wb.sink) != 0) return where + "sink content is not a prefix of the appended bytes";
    if (wb.sink.size() < sinkBefore) return where + "sink shrank";
    if (wb.maxLen > (largest > N ? largest : N)) return where + "sink called with more bytes than were ever appended/buffered";
  }
  for (int attempt = 0;; ++attempt) {
    try { wb.flush(); break; }
    catch (const SinkFailure &) { if (attempt > 6) return "final flush: sink keeps failing"; std::string p = afterFailure("final flush: "); if (!p.empty()) return p; }
  }
  if (wb.sink != all) return "after final flush the sink differs from the appended bytes";
  if (!injected) {   // the policy counts attempts, so its numbers are only exact without injected failures
    if (wb.bytesAppended() != all.size()) return "policy bytesAppended() wrong";
    if (wb.bytesFlushed() != all.size()) return "policy bytesFlushed() wrong";
  }
  if (forced) st.markNontrivial();
  return "";
}

std::string runWriteCase(const WriteCase &c) {
  switch (c.n) {
    case 1: return runWrite<1>(c);
    case 2: return runWrite<2>(c);
    case 3: return runWrite<3>(c);
    case 4: return runWrite<4>(c);
    case 5: return runWrite<5>(c);
    case 8: return runWrite<8>(c);
    case 16: return runWrite<16>(c);
    case 64: return runWrite<64>(c);
  }
  throw std::runtime_error("bad buffer size");
}

std::string showWrite(const WriteCase &c) {
  Writer w;
  w.tag("write").u(c.n).u(c.ops.size());
  for (auto v : c.ops) w.i(v);
  w.nl();
  if (!c.failCalls.empty()) { w.tag("fail").u(c.failCalls.size()); for (auto v : c.failCalls) w.u(v); w.nl(); }
  return w.str();
}
WriteCase parseWrite(const std::string &t) {
  Reader r(t);
  WriteCase c;
  r.tag(); c.n = r.u();
  size_t k = r.u();
  for (size_t i = 0; i < k; ++i) c.ops.push_back(r.i());
  if (!r.eof() && r.peek() == "fail") { r.tag(); size_t nf = r.u(); for (size_t i = 0; i < nf; ++i) c.failCalls.push_back(r.u()); }
  return c;
}

rc::Gen<WriteCase> genWrite() {
  return rc::gen::exec([]() {
    WriteCase c;
    c.n = *rc::gen::elementOf(std::vector<size_t>(std::begin(kSizes), std::end(kSizes)));
    size_t n = c.n;
    size_t k = *range<size_t>(1, 16);
    for (size_t i = 0; i < k; ++i) {
      int kind = *rc::gen::weightedElement<int>({{12, 0}, {3, 1}, {1, 2}, {1, 3}});
      if (kind == 1) c.ops.push_back(-1);
      else if (kind == 2) c.ops.push_back(-2);
      else if (kind == 3) c.ops.push_back(-3);
      else
        c.ops.push_back(static_cast<int64_t>(*rc::gen::weightedOneOf<size_t>(
            {{1, just<size_t>(0)}, {2, just<size_t>(1)}, {2, just<size_t>(n - 1)},
             {2, just<size_t>(n)}, {1, just<size_t>(n + 1)}, {6, range<size_t>(0, 2 * n + 3)}})));
    }
    // fault injection: some calls of the sink fail (and are retried by the caller)
    if (*range<int>(0, 99) < 40) {
      size_t nf = *range<size_t>(1, 3);
      for (size_t i = 0; i < nf; ++i) c.failCalls.push_back(*range<size_t>(0, 9));
    }
    return c;
  });
}

void enumWrite(const std::function<bool(const WriteCase &)> &cb) {
  for (size_t n : {size_t(1), size_t(2), size_t(3)}) {
    for (size_t k = 1; k <= 5; ++k) {
      // alphabet: flush(-1), append 0..2n+1
      int64_t hi = static_cast<int64_t>(2 * n + 1);
      std::vector<int64_t> g(k, -1);
      for (;;) {
        WriteCase c;
        c.n = n;
        c.ops = g;
        if (!cb(c)) return;
        if (k <= 4)   // the same sequence with the first resp. second call of the sink failing
          for (size_t f : {size_t(0), size_t(1)}) { WriteCase cf = c; cf.failCalls = {f}; if (!cb(cf)) return; }
        size_t i = 0;
        while (i < k && ++g[i] > hi) g[i++] = -1;
        if (i == k) break;
      }
    }
  }
}

struct Init {
  Init() {
    auto &r = addMode<ReadCase>("read");
    r.gen = genRead; r.run = runReadCase; r.show = showRead; r.parse = parseRead; r.enumerator = enumRead;
    auto &w = addMode<WriteCase>("write");
    w.gen = genWrite; w.run = runWriteCase; w.show = showWrite; w.parse = parseWrite; w.enumerator = enumWrite;
  }
} init;

}  // namespace

int main(int argc, char **argv) { return harnessMain(argc, argv); }
