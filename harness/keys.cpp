// C05 - a key designates exactly one argument, independent of definition order.
// (mode groupdup: C08's "defining the same key in two member handlers is refused")
#include "common/verif.hpp"

#include "celma/prog_args.hpp"
#include "celma/prog_args/groups.hpp"

using namespace verif;
namespace cpa = celma::prog_args;
using cpa::Handler;

namespace {

struct Spec {
  std::string text;     // as passed to addArgument
  char s = 0;           // short key (model's own parse, from how the generator built the text)
  std::string l;        // long key
};
struct Case {
  std::vector<Spec> specs;                 // canonical list
  std::vector<std::vector<int>> orders;    // definition orders (permutations of indices)
  bool abbrev = true;
  std::vector<int> member;                 // groupdup mode: member handler of each spec
};

// ---- set-theoretic key model
struct ModelArg { char s; std::string l; int id; };
// which specs are accepted when defined in this order
std::vector<ModelArg> modelDefine(const Case &c, const std::vector<int> &order, std::vector<bool> &accepted) {
  std::vector<ModelArg> args;
  accepted.assign(c.specs.size(), false);
  for (int idx : order) {
    const Spec &sp = c.specs[idx];
    bool clash = false;
    for (auto &a : args) {
      if (sp.s && a.s == sp.s) clash = true;
      if (!sp.l.empty() && a.l == sp.l) clash = true;
    }
    if (clash) continue;
    accepted[idx] = true;
    args.push_back({sp.s, sp.l, idx});
  }
  return args;
}
// lookup result: id of the selected argument, or -1 = rejected
int modelLookup(const std::vector<ModelArg> &args, bool abbrev, bool isShort, const std::string &key) {
  if (isShort || key.size() == 1) {   // a one character name is a short key, also after "--"
    for (auto &a : args) if (a.s == key[0]) return a.id;
    return -1;
  }
  for (auto &a : args) if (a.l == key) return a.id;
  if (!abbrev) return -1;
  int found = -1, n = 0;
  for (auto &a : args) if (!a.l.empty() && a.l.compare(0, key.size(), key) == 0) { found = a.id; ++n; }
  return n == 1 ? found : -1;
}

struct Lookup { bool isShort; std::string key; };
std::vector<Lookup> lookupsFor(const Case &c) {
  std::vector<Lookup> r;
  std::set<std::string> seen;
  for (auto &sp : c.specs) {
    if (sp.s && seen.insert(std::string("s") + sp.s).second) r.push_back({true, std::string(1, sp.s)});
    for (size_t n = 1; n <= sp.l.size(); ++n) {
      std::string p = sp.l.substr(0, n);
      if (seen.insert("l" + p).second) r.push_back({false, p});
    }
  }
  // some keys nobody defines
  r.push_back({true, "q"});
  r.push_back({false, "zz"});
  return r;
}

// defines the arguments in the given order on a fresh handler; returns which were accepted
struct RealSetup {
  std::vector<bool> accepted;
  std::string problem;
};

bool subMode = false;   // set by the mode sublookup
bool historyMode = false;   // set by the mode history: keys are looked up (without evaluation) while only a part is defined

std::string runOrder(const Case &c, const std::vector<int> &order, std::vector<int> &outcomes, std::vector<bool> &acceptedOut) {
  const auto lookups = lookupsFor(c);
  outcomes.clear();
  // definition phase is repeated for every lookup (fresh handler, fresh destinations)
  for (size_t li = 0; li <= lookups.size(); ++li) {
    std::vector<int> dest(c.specs.size(), -1);
    std::ostringstream out, err;
    // sub-group arguments (mode sublookup: member[idx] == 1) enter a handler of their own, whose positional argument
    // receives the value: which argument was selected is visible in the same way for both kinds
    std::vector<std::unique_ptr<Handler>> subs(c.specs.size());
    Handler h(out, err, (c.abbrev ? 0 : Handler::hfNoAbbr) | Handler::hfUsageCont);
    std::vector<bool> accepted(c.specs.size(), false);
    size_t definedSoFar = 0;
    for (int idx : order) {
      // mode history: after half of the definitions every key and prefix is asked for once (getArgHandler does the
      // same lookup as the evaluation); what a handler answers later depends on its keys, not on what it was asked before
      if (historyMode && definedSoFar == order.size() / 2) {
        for (auto &lk2 : lookups) {
          try { (void)h.getArgHandler(lk2.key); }
          catch (const std::exception &) {}
        }
      }
      ++definedSoFar;
      try {
        if (subMode && c.member[idx] == 1) {
          subs[idx].reset(new Handler(out, err, Handler::hfUsageCont));
          subs[idx]->addArgument("-", cpa::destination(dest[idx], "sub" + std::to_string(idx)), "value");
          h.addArgument(c.specs[idx].text, *subs[idx], "desc");
        } else
        h.addArgument(c.specs[idx].text, cpa::destination(dest[idx], "dest" + std::to_string(idx)), "desc");
        accepted[idx] = true;
      } catch (const std::exception &) {
      } catch (...) { return "addArgument threw something that is not a std::exception"; }
    }
    if (li == lookups.size()) { acceptedOut = accepted; break; }
    const Lookup &lk = lookups[li];
    std::string w = (lk.isShort ? "-" : "--") + lk.key;
    std::string v = "7";
    char *argv[] = {const_cast<char *>("prog"), const_cast<char *>(w.c_str()), const_cast<char *>(v.c_str()), nullptr};
    int outcome = -1;
    try {
      h.evalArguments(3, argv);
      int hits = 0;
      for (size_t i = 0; i < dest.size(); ++i) if (dest[i] == 7) { outcome = static_cast<int>(i); ++hits; }
      if (hits != 1) return "lookup " + w + ": evaluation succeeded but " + std::to_string(hits) + " destinations received the value";
    } catch (const std::exception &) {
      for (size_t i = 0; i < dest.size(); ++i) if (dest[i] == 7) return "lookup " + w + ": exception although destination " + std::to_string(i) + " received the value";
      outcome = -1;
    } catch (...) { return "lookup " + w + ": non-std exception"; }
    outcomes.push_back(outcome);
  }
  return "";
}

std::string specList(const Case &c, const std::vector<int> &order) {
  std::string s;
  for (int i : order) s += "'" + c.specs[i].text + "' ";
  return s;
}

std::string runCase(const Case &c) {
  auto &st = stats();
  const auto lookups = lookupsFor(c);
  std::vector<std::set<std::string>> acceptedKeySets;
  std::vector<int> firstOutcomes;
  bool nestedPrefix = false, conflict = false;
  for (auto &a : c.specs) { int n = 0; for (auto &b : c.specs) if (!a.l.empty() && b.l.size() > a.l.size() && b.l.compare(0, a.l.size(), a.l) == 0) ++n; if (n >= 2) nestedPrefix = true; }
  for (size_t oi = 0; oi < c.orders.size(); ++oi) {
    const auto &order = c.orders[oi];
    std::vector<bool> macc, racc;
    auto margs = modelDefine(c, order, macc);
    std::vector<int> outcomes;
    std::string m = runOrder(c, order, outcomes, racc);
    std::string where = std::string(c.abbrev ? "" : "[no abbreviations] ") + "definition order " + specList(c, order) + ": ";
    if (!m.empty()) return where + m;
    for (size_t i = 0; i < c.specs.size(); ++i) {
      if (macc[i] != racc[i])
        return where + "addArgument('" + c.specs[i].text + "') was " + (racc[i] ? "accepted although its key is already taken" : "refused although its keys are free");
      if (!macc[i]) conflict = true;
    }
    for (size_t li = 0; li < lookups.size(); ++li) {
      int expect = modelLookup(margs, c.abbrev, lookups[li].isShort, lookups[li].key);
      std::string w = (lookups[li].isShort ? "-" : "--") + lookups[li].key;
      if (outcomes[li] != expect) {
        auto nm = [&](int id) { return id < 0 ? std::string("rejected") : "argument '" + c.specs[id].text + "'"; };
        return where + "'" + w + "' -> " + nm(outcomes[li]) + ", expected " + nm(expect);
      }
    }
    st.cls("orders_evaluated");
    st.cls("lookups", lookups.size());
  }
  if (conflict) st.cls("key_conflict_refused");
  if (nestedPrefix) st.cls("nested_prefix_keys");
  if (!c.abbrev) st.cls("abbreviations_off");
  if (c.orders.size() > 6) st.cls("all_permutations");
  if (subMode) {
    bool anySub = false, anyPlain = false, prefixAcross = false;
    for (size_t i = 0; i < c.specs.size(); ++i) { (c.member[i] == 1 ? anySub : anyPlain) = true; }
    for (size_t i = 0; i < c.specs.size(); ++i) for (size_t j = 0; j < c.specs.size(); ++j)
      if (c.member[i] != c.member[j] && !c.specs[i].l.empty() && c.specs[j].l.size() > c.specs[i].l.size() && c.specs[j].l.compare(0, c.specs[i].l.size(), c.specs[i].l) == 0) prefixAcross = true;
    if (anySub && anyPlain) st.cls("sub_group_and_ordinary_arguments");
    if (prefixAcross) st.cls("prefix_relation_across_the_two_kinds");
  }
  if (nestedPrefix || conflict) st.markNontrivial();
  return "";
}

// ---- groupdup: the same specs spread over member handlers of a group; refusal must not depend on the member
std::string runGroupDup(const Case &c) {
  auto &st = stats();
  for (auto &order : c.orders) {
    std::vector<bool> macc;
    modelDefine(c, order, macc);
    cpa::Groups::reset();
    std::ostringstream out, err;
    auto &g = cpa::Groups::instance(out, err, Handler::hfUsageCont);
    std::vector<int> dest(c.specs.size(), -1);
    int members = 0;
    for (int m : c.member) members = std::max(members, m + 1);
    std::vector<std::shared_ptr<Handler>> hs;
    for (int m = 0; m < members; ++m) hs.push_back(g.getArgHandler("member" + std::to_string(m), c.abbrev ? 0 : Handler::hfNoAbbr));
    std::string problem;
    for (int idx : order) {
      bool ok = false;
      try { hs[c.member[idx]]->addArgument(c.specs[idx].text, cpa::destination(dest[idx], "d" + std::to_string(idx)), "desc"); ok = true; }
      catch (const std::exception &) {}
      if (ok != macc[idx] && problem.empty())
        problem = "definition order " + specList(c, order) + ": addArgument('" + c.specs[idx].text + "') in member " + std::to_string(c.member[idx]) + " was " +
                  (ok ? "accepted although another member (or the same) already defines its key" : "refused although its keys are free");
      // the property only says that the duplicate is refused; what a handler looks like after a refused definition is not
      // specified (the refused argument stays in the member that tried to add it), so the order ends at the first refusal
      const bool stopHere = !macc[idx];
      if (!macc[idx]) { bool other = false; for (size_t j = 0; j < c.specs.size(); ++j) if (static_cast<int>(j) != idx && c.member[j] != c.member[idx] && ((c.specs[j].s && c.specs[j].s == c.specs[idx].s) || (!c.specs[j].l.empty() && c.specs[j].l == c.specs[idx].l))) other = true; if (other) { st.cls("cross_member_duplicate"); st.markNontrivial(); } }
      if (stopHere) break;
    }
    hs.clear();
    cpa::Groups::reset();
    if (!problem.empty()) return problem;
    st.cls("group_orders_evaluated");
  }
  return "";
}

std::string showCase(const Case &c) {
  Writer w;
  w.tag("keys").u(c.abbrev).u(c.specs.size()).u(c.orders.size()).nl();
  for (size_t i = 0; i < c.specs.size(); ++i) w.tag("spec").s(c.specs[i].text).u(static_cast<unsigned char>(c.specs[i].s)).s(c.specs[i].l).u(i < c.member.size() ? c.member[i] : 0).nl();
  for (auto &o : c.orders) { w.tag("order"); for (int i : o) w.u(i); w.nl(); }
  return w.str();
}
Case parseCase(const std::string &t) {
  Reader r(t);
  Case c;
  r.tag(); c.abbrev = r.u();
  size_t n = r.u(), no = r.u();
  for (size_t i = 0; i < n; ++i) { Spec s; r.tag(); s.text = r.s(); s.s = static_cast<char>(r.u()); s.l = r.s(); c.member.push_back(static_cast<int>(r.u())); c.specs.push_back(s); }
  for (size_t i = 0; i < no; ++i) { r.tag(); std::vector<int> o; for (size_t j = 0; j < n; ++j) o.push_back(static_cast<int>(r.u())); c.orders.push_back(o); }
  return c;
}

Spec genSpec() {
  static const std::vector<char> shorts = {'a', 'b', 'i', 'o'};
  static const std::vector<std::string> longs = {"in", "inp", "inpu", "input", "input-file", "input-format", "out", "outp", "output"};
  Spec s;
  int form = *range<int>(0, 6);
  char sc = shorts[*range<size_t>(0, shorts.size() - 1)];
  std::string lw = longs[*range<size_t>(0, longs.size() - 1)];
  switch (form) {
    case 0: s.s = sc; s.text = std::string(1, sc); break;
    case 1: s.s = sc; s.text = std::string("-") + sc; break;
    case 2: s.l = lw; s.text = lw; break;
    case 3: s.l = lw; s.text = "--" + lw; break;
    case 4: s.s = sc; s.l = lw; s.text = std::string(1, sc) + "," + lw; break;
    case 5: s.s = sc; s.l = lw; s.text = lw + "," + std::string(1, sc); break;
    default: s.s = sc; s.l = lw; s.text = std::string("-") + sc + ",--" + lw; break;
  }
  return s;
}

rc::Gen<Case> genCase(bool groups) {
  return rc::gen::exec([groups]() {
    Case c;
    c.abbrev = *range<int>(0, 3) != 0;
    size_t n = *range<size_t>(2, 6);
    for (size_t i = 0; i < n; ++i) { c.specs.push_back(genSpec()); c.member.push_back(groups ? *range<int>(0, 2) : 0); }
    std::vector<int> base(n);
    for (size_t i = 0; i < n; ++i) base[i] = static_cast<int>(i);
    if (n <= 4 && !groups) {
      std::vector<int> p = base;
      do c.orders.push_back(p); while (std::next_permutation(p.begin(), p.end()));
    } else {
      c.orders.push_back(base);
      int k = groups ? 2 : 5;
      for (int j = 0; j < k; ++j) {
        std::vector<int> p = base;
        for (size_t i = p.size(); i > 1; --i) std::swap(p[i - 1], p[*range<size_t>(0, i - 1)]);
        c.orders.push_back(p);
      }
    }
    return c;
  });
}

struct Init {
  Init() {
    auto &m = addMode<Case>("lookup");
    m.gen = []() { return genCase(false); }; m.run = runCase; m.show = showCase; m.parse = parseCase;
    auto &sm = addMode<Case>("sublookup");
    sm.gen = []() { return rc::gen::exec([]() { Case c = *genCase(false); for (auto &m : c.member) m = *range<int>(0, 9) < 4 ? 1 : 0; return c; }); };
    sm.run = [](const Case &c) { subMode = true; std::string r = runCase(c); subMode = false; return r; };
    sm.show = showCase; sm.parse = parseCase;
    auto &hm = addMode<Case>("history");
    hm.gen = []() { return genCase(false); };
    hm.run = [](const Case &c) { historyMode = true; std::string r = runCase(c); historyMode = false; if (r.empty()) stats().cls("lookups_between_definitions"); return r; };
    hm.show = showCase; hm.parse = parseCase;
    auto &g = addMode<Case>("groupdup");
    g.gen = []() { return genCase(true); }; g.run = runGroupDup; g.show = showCase; g.parse = parseCase;
  }
} init;

}  // namespace

int main(int argc, char **argv) { return harnessMain(argc, argv); }
