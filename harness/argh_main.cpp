// argh harness: modes spell (C01), valid (C03), break (C02), fold (C06), sources (C07b), groups (C08)
#include "argh/gen.hpp"

using namespace verif;
using namespace argh;

namespace {

struct Variant { Line line; RealInput in; std::string note; };
struct Case {
  Config cfg;
  std::vector<Variant> vars;
  std::string mutation;     // break mode: name of the rule-breaking mutation
  bool discarded = false;   // generator could not build a case of the requested class
  std::string discardWhy;
};

// ---------------------------------------------------------------- serialisation
std::string showCase(const Case &c) {
  Writer w;
  w.tag("argh").s(c.mutation).u(c.discarded).s(c.discardWhy).u(c.vars.size()).nl();
  writeConfig(w, c.cfg);
  for (auto &v : c.vars) {
    w.tag("variant").s(v.note).nl();
    writeLine(w, v.line);
    writeWords(w, "argv", v.in.argv);
    w.tag("sources").u(v.in.haveFile).u(v.in.fileViaArgument).s(v.in.fileBody).u(v.in.haveEnv).s(v.in.envName).s(v.in.envBody).nl();
    w.tag("groups").u(static_cast<uint64_t>(v.in.groupCount)).u(v.in.groupOf.size());
    for (int g : v.in.groupOf) w.u(static_cast<uint64_t>(g));
    w.nl();
  }
  return w.str();
}
Case parseCase(const std::string &t) {
  Reader r(t);
  Case c;
  r.tag(); c.mutation = r.s(); c.discarded = r.u(); c.discardWhy = r.s();
  size_t nv = r.u();
  c.cfg = readConfig(r);
  for (size_t i = 0; i < nv; ++i) {
    Variant v;
    r.tag(); v.note = r.s();
    v.line = readLine(r);
    v.in.argv = readWords(r);
    r.tag(); v.in.haveFile = r.u(); v.in.fileViaArgument = r.u(); v.in.fileBody = r.s(); v.in.haveEnv = r.u(); v.in.envName = r.s(); v.in.envBody = r.s();
    r.tag(); v.in.groupCount = static_cast<int>(r.u());
    size_t ng = r.u();
    for (size_t j = 0; j < ng; ++j) v.in.groupOf.push_back(static_cast<int>(r.u()));
    c.vars.push_back(v);
  }
  return c;
}

std::string argvText(const std::vector<std::string> &a) {
  std::string s;
  for (auto &w : a) { s += "["; s += w; s += "] "; }
  return s;
}

void classifyConfig(const Config &c) {
  auto &st = stats();
  for (auto &a : c.args) {
    st.cls(std::string("kind.") + kindName(slotKinds()[a.slot]));
    if (!a.checks.empty()) st.cls("attr.check");
    if (a.format) st.cls("attr.format");
    if (!a.posFormats.empty()) st.cls("attr.format_per_position");
    if (a.cardKind != CARD_DEFAULT) st.cls("attr.cardinality");
    if (!a.constraints.empty()) st.cls("attr.arg_constraint");
    for (int x : a.ctStyle) { if ((x & 3) == 1) st.cls("attr.constraint_names_short_key"); if ((x & 3) == 2) st.cls("attr.constraint_names_long_key"); if (x & 4) st.cls("attr.constraint_key_list"); }
    if (a.clearFirst) st.cls("attr.clear");
    if (a.sort) st.cls("attr.sort");
    if (a.unique) st.cls("attr.unique");
    if (a.multiValue) st.cls("attr.multivalue");
    if (a.listSep) st.cls("attr.listsep");
    if (a.mandatory) st.cls("attr.mandatory");
    if (a.optionalValue) st.cls("attr.optional_value");
  }
  for (auto &h : c.hcs) st.cls(std::string("hc.") + (h.type == HC_ALL_OF ? "all_of" : h.type == HC_ANY_OF ? "any_of" : h.type == HC_ONE_OF ? "one_of" : h.type == HC_DIFFER ? "differ" : "disjoint"));
  if (c.flags & F_NO_ABBR) st.cls("flag.no_abbr");
}

// ---------------------------------------------------------------- oracles
// all variants must be accepted, equal the model, and equal each other
std::string runValid(const Case &c) {
  auto &st = stats();
  if (c.discarded) { st.cls("discarded." + c.discardWhy); return ""; }
  classifyConfig(c.cfg);
  std::map<int, Val> firstState;
  bool haveFirst = false;
  for (size_t vi = 0; vi < c.vars.size(); ++vi) {
    const Variant &v = c.vars[vi];
    ModelResult m = evalModel(c.cfg, v.line);
    if (m.verdict != ModelResult::ACCEPT) { st.cls("invalid_case.model_" + std::string(m.verdict == ModelResult::REJECT ? "reject" : "undefined")); return ""; }
    RealResult r = runReal(c.cfg, v.in);
    std::string where = "variant " + std::to_string(vi) + " (" + v.note + ") argv " + argvText(v.in.argv) +
                        (v.in.haveFile ? " file{" + v.in.fileBody + "}" : "") + (v.in.haveEnv ? " env{" + v.in.envBody + "}" : "") + ": ";
    if (r.setupThrew) return where + "library refused the configuration: " + r.what;
    if (r.threw) return where + "rule-obeying line was rejected: " + r.what;
    std::string d = compareStates(c.cfg, m.state, r.state);
    if (!d.empty()) return where + d;
    if (haveFirst) {
      std::string d2 = compareStates(c.cfg, firstState, m.state);
      if (!d2.empty()) return where + "model disagrees between two spellings/orders of the same assignment (generator bug?): " + d2;
    } else { firstState = m.state; haveFirst = true; }
    st.cls("evaluated_variants");
  }
  return "";
}

std::string runBreak(const Case &c) {
  auto &st = stats();
  if (c.discarded) { st.cls("discarded." + c.discardWhy); return ""; }
  classifyConfig(c.cfg);
  const Variant &v = c.vars[0];
  ModelResult m = evalModel(c.cfg, v.line);
  if (m.verdict != ModelResult::REJECT) { st.cls("invalid_case.model_not_reject"); return ""; }
  RealResult r = runReal(c.cfg, v.in);
  std::string where = "mutation " + c.mutation + " (" + m.reason + ") argv " + argvText(v.in.argv) + ": ";
  if (r.setupThrew) return where + "library refused the configuration: " + r.what;
  if (!r.threw) return where + "rule-breaking line was silently accepted";
  if (!r.stdException) return where + "exception not derived from std::exception";
  st.cls("mutation." + c.mutation);
  st.markNontrivial();
  return "";
}

// ---------------------------------------------------------------- generators
Line permuteDistinct(const Config &cfg, const Line &line) {
  // move whole argument blocks around; keep the relative order of the uses of one argument and of
  // arguments linked by requires/excludes (order-sensitive by documentation)
  std::vector<int> firstSeen;
  for (auto &u : line) if (std::find(firstSeen.begin(), firstSeen.end(), u.arg) == firstSeen.end()) firstSeen.push_back(u.arg);
  std::set<int> pinned;
  for (size_t i = 0; i < cfg.args.size(); ++i) for (auto &ct : cfg.args[i].constraints) { pinned.insert(static_cast<int>(i)); pinned.insert(ct.second); }
  // random interleaving: repeatedly pick the next use among the heads of per-argument queues
  std::map<int, std::vector<Use>> q;
  for (auto &u : line) q[u.arg].push_back(u);
  std::vector<int> pinnedOrder;
  for (int a : firstSeen) if (pinned.count(a)) pinnedOrder.push_back(a);
  Line out;
  std::map<int, size_t> pos;
  size_t pinnedIdx = 0;
  while (out.size() < line.size()) {
    std::vector<int> cands;
    for (auto &kv : q) {
      if (pos[kv.first] >= kv.second.size()) continue;
      if (pinned.count(kv.first)) {
        // pinned arguments keep their original block order
        while (pinnedIdx < pinnedOrder.size() && pos[pinnedOrder[pinnedIdx]] >= q[pinnedOrder[pinnedIdx]].size()) ++pinnedIdx;
        if (pinnedIdx < pinnedOrder.size() && pinnedOrder[pinnedIdx] == kv.first) cands.push_back(kv.first);
      } else cands.push_back(kv.first);
    }
    int a = oneOf(cands);
    out.push_back(q[a][pos[a]++]);
  }
  return out;
}

Profile profileFor(const std::string &mode) {
  Profile p;
  if (mode != "groups") p.positional = true;   // free values have no key: not meaningful across group members
  if (mode == "spell") { p.multiValue = true; p.maxArgs = 6; }
  else if (mode == "valid" || mode == "break" || mode == "groups") {
    p.checks = p.formats = p.cardinality = p.argConstraints = p.handlerConstraints = p.mandatory = true;
    p.inertExtras = true; p.optionalValue = true; p.maxArgs = 7;
  }
  return p;
}

rc::Gen<Case> genSpell(const std::string &mode) {
  return rc::gen::exec([mode]() {
    Case c;
    Profile pf = profileFor(mode);
    c.cfg = genConfig(pf);
    if (c.cfg.args.empty()) { c.discarded = true; c.discardWhy = "no_args"; return c; }
    Line base = genValidLine(c.cfg, pf);
    if (base.empty()) { c.discarded = true; c.discardWhy = "empty_line"; return c; }
    ModelResult m = evalModel(c.cfg, base);
    if (m.verdict != ModelResult::ACCEPT) { c.discarded = true; c.discardWhy = "line_not_valid:" + m.reason.substr(0, 30); return c; }
    int k = static_cast<int>(opt("spellings", 4));
    for (int i = 0; i <= k; ++i) {
      Variant v;
      SpellOptions so;
      so.canonical = (i == 0);
      v.line = (i == 0) ? base : permuteDistinct(c.cfg, base);
      ModelResult mp = evalModel(c.cfg, v.line);
      if (mp.verdict != ModelResult::ACCEPT) { v.line = base; }
      v.in.argv = {"prog"};
      SpellStats ss;
      for (auto &w : spell(c.cfg, v.line, so, &ss)) v.in.argv.push_back(w);
      v.note = i == 0 ? "canonical" : "spelling";
      c.vars.push_back(v);
    }
    return c;
  });
}

// ---- rule-breaking mutations (the model has the last word: it must REJECT the mutated line)
struct Mutated { Line line; std::string name; bool ok = false; };

Mutated mutate(const Config &cfg, const Line &valid) {
  const auto &sk = slotKinds();
  Mutated m;
  m.line = valid;
  KeySet ks = keySetOf(cfg);
  std::vector<std::string> kinds = {"unknown_short", "unknown_long", "ambiguous_or_unknown_prefix", "drop_mandatory", "missing_value",
                                    "duplicate_use", "bad_value", "check_violation", "excluded_after_excluder", "missing_required",
                                    "all_of_partial", "any_of_two", "one_of_none", "one_of_two", "differ_equal", "disjoint_common",
                                    "unique_duplicate", "fixed_overflow", "tuple_short", "bitset_range", "deprecated_use", "too_few_values", "stray_value", "overlong_key"};
  m.name = oneOf(kinds);
  // rules that only few configurations carry get their mutation more often where they exist
  std::vector<std::string> relevant;
  for (auto &h : cfg.hcs) {
    if (h.type == HC_ALL_OF) relevant.push_back("all_of_partial");
    else if (h.type == HC_ANY_OF) relevant.push_back("any_of_two");
    else if (h.type == HC_ONE_OF) { relevant.push_back("one_of_none"); relevant.push_back("one_of_two"); }
    else if (h.type == HC_DIFFER) { relevant.push_back("differ_equal"); if (h.args.size() > 2) relevant.push_back("differ_equal"); }
    else relevant.push_back("disjoint_common");
  }
  for (auto &a : cfg.args)
    for (size_t ci = 0; ci < a.constraints.size(); ++ci) {
      const char *k = a.constraints[ci].first == CT_REQUIRES ? "missing_required" : "excluded_after_excluder";
      relevant.push_back(k);
      if (ci < a.ctStyle.size() && (a.ctStyle[ci] & 4)) { relevant.push_back(k); relevant.push_back(k); }   // key lists
    }
  for (auto &a : cfg.args) if (a.multiValue) { relevant.push_back("stray_value"); break; }   // where does a value list end?
  if (!relevant.empty() && pick(35)) m.name = oneOf(relevant);
  auto usesOf = [&](int a) { std::vector<size_t> v; for (size_t i = 0; i < m.line.size(); ++i) if (m.line[i].arg == a) v.push_back(i); return v; };
  auto insertAt = [&](const Use &u) { size_t p = *range<size_t>(0, m.line.size()); m.line.insert(m.line.begin() + static_cast<long>(p), u); };
  auto freshUse = [&](int a) {   // a valid single use of argument a
    Use u; u.arg = a;
    int kind = sk[cfg.args[a].slot];
    if (kind == K_FLAG) return u;
    u.hasValue = true;
    if (isScalar(kind)) u.elems = {genValidText(cfg.args[a], scalarValueType(kind), false)};
    else u.elems = genElems(cfg.args[a], kind, kind == K_TUPLE_ISI ? 3 : 1, kind == K_TUPLE_ISI ? 3 : 2, -1);
    if (cfg.args[a].spec == "-" && !u.elems.empty() && (u.elems[0].empty() || needsAttach(u.elems[0])))   // positional: a bare word
      u.elems[0] = (kind == K_STRING || kind == K_VEC_STRING) ? "p" + u.elems[0].substr(u.elems[0].empty() ? 0 : 1) : std::to_string(*range<int>(0, 99));
    return u;
  };
  const std::string &n = m.name;
  if (n == "unknown_short") {
    std::vector<char> fresh;
    for (char ch = 'a'; ch <= 'z'; ++ch) { bool usedc = false; for (auto &a : cfg.args) if (a.shortKey == ch) usedc = true; for (char b : builtinShortKeys(cfg.flags)) if (b == ch) usedc = true; if (!usedc) fresh.push_back(ch); }
    Use u; u.keyText = std::string(1, oneOf(fresh)); u.hasValue = pick(30); if (u.hasValue) u.elems = {"5"};
    insertAt(u); m.ok = true;
  } else if (n == "stray_value") {
    // a value word that no argument asked for: at the start, or behind an argument that does not take multiple values
    std::vector<size_t> pos;
    for (size_t i = 0; i <= m.line.size(); ++i) {
      if (i > 0 && m.line[i - 1].arg >= 0 && cfg.args[m.line[i - 1].arg].multiValue) continue;
      if (i > 0 && m.line[i - 1].arg >= 0 && !m.line[i - 1].hasValue && sk[cfg.args[m.line[i - 1].arg].slot] != K_FLAG) continue;   // would become the optional value
      pos.push_back(i);
    }
    if (!pos.empty()) {
      Use u; u.hasValue = true; u.rawValue = true; u.elems = {pick(50) ? std::to_string(*range<int>(0, 99)) : genString(1, 4, "abcxyz")};
      m.line.insert(m.line.begin() + static_cast<long>(oneOf(pos)), u);
      m.ok = true;
    }
  } else if (n == "overlong_key") {
    // a defined long key with something appended: not a key, not an abbreviation of anything
    std::vector<std::string> cands;
    for (auto &l : ks.longs) {
      for (const char *suffix : {"x", "s", "-x", "2", "file"}) {
        std::string k = l + suffix;
        bool clash = false;
        for (auto &o : ks.longs) if (o.compare(0, k.size(), k) == 0) clash = true;   // would be a key or an abbreviation
        if (!clash) cands.push_back(k);
      }
    }
    if (!cands.empty()) { Use u; u.keyText = oneOf(cands); u.hasValue = pick(40); if (u.hasValue) u.elems = {"5"}; insertAt(u); m.ok = true; }
  } else if (n == "unknown_long") {
    Use u; u.keyText = "zz" + genString(0, 4, "qwz"); u.hasValue = pick(30); if (u.hasValue) u.elems = {"5"};
    insertAt(u); m.ok = true;
  } else if (n == "ambiguous_or_unknown_prefix") {
    std::vector<std::string> cands;
    for (auto &l : ks.longs)
      for (size_t len = 2; len < l.size(); ++len) {
        std::string p = l.substr(0, len);
        int matches = 0; bool exact = false;
        for (auto &o : ks.longs) { if (o.compare(0, len, p) == 0) ++matches; if (o == p) exact = true; }
        if (exact) continue;
        if (!ks.abbrev || matches >= 2) cands.push_back(p);
      }
    if (!cands.empty()) { Use u; u.keyText = oneOf(cands); insertAt(u); m.ok = true; }
  } else if (n == "drop_mandatory") {
    std::vector<int> mand;
    for (size_t i = 0; i < cfg.args.size(); ++i) if (cfg.args[i].mandatory) mand.push_back(static_cast<int>(i));
    if (!mand.empty()) { int a = oneOf(mand); Line l; for (auto &u : m.line) if (u.arg != a) l.push_back(u); m.line = l; m.ok = true; }
  } else if (n == "missing_value") {
    std::vector<size_t> cands;
    for (size_t i = 0; i < m.line.size(); ++i) if (m.line[i].arg >= 0 && m.line[i].hasValue && !cfg.args[m.line[i].arg].optionalValue && cfg.args[m.line[i].arg].spec != "-") cands.push_back(i);
    if (!cands.empty()) { size_t i = oneOf(cands); m.line[i].hasValue = false; m.line[i].elems.clear(); m.line[i].free.clear(); m.ok = true; }
  } else if (n == "duplicate_use") {
    if (!m.line.empty()) {
      size_t i = *range<size_t>(0, m.line.size() - 1);
      if (m.line[i].arg >= 0) { int reps = *range<int>(1, 3); for (int r = 0; r < reps; ++r) insertAt(freshUse(m.line[i].arg)); m.ok = true; }
    }
  } else if (n == "bad_value") {
    std::vector<size_t> cands;
    for (size_t i = 0; i < m.line.size(); ++i) {
      if (m.line[i].arg < 0 || !m.line[i].hasValue) continue;
      int kind = sk[cfg.args[m.line[i].arg].slot];
      char et = isScalar(kind) ? scalarValueType(kind) : elemType(kind);
      if (et == 'i' || et == 'l' || et == 'u' || et == 'd' || et == 'p') cands.push_back(i);
    }
    if (!cands.empty()) {
      size_t i = oneOf(cands);
      int kind = sk[cfg.args[m.line[i].arg].slot];
      std::vector<std::string> bad = {"12x", "abc", "x7", "1.5.2", "--", "99999999999999999999", "9999999999"};
      if (kind == K_LONG) bad = {"12x", "abc", "99999999999999999999", "1e"};
      if (isBits(kind)) bad = {"12x", "abc", "x7", "1.5.2", "1x1", "-1", "-2", "-7", "-64"};   // any non-negative number is a legal position; a negative one is not (defects #45/#47)
      if (kind == K_DOUBLE) bad = {"abc", "1.5.2", "1,5x", "--1"};
      if (cfg.args[m.line[i].arg].spec == "-") bad = {"12x", "abc", "x7", "1.5.2", "9x9"};   // a bare word: nothing that looks like a key
      if (isScalar(kind)) { if (cfg.args[m.line[i].arg].spec != "-") bad.push_back(""); m.line[i].elems = {oneOf(bad)}; }
      else { size_t e = *range<size_t>(0, m.line[i].elems.size() - 1); std::string b = oneOf(bad); if (b == "--") b = "1x1"; m.line[i].elems[e] = b; }
      m.ok = true;
    }
  } else if (n == "check_violation") {
    std::vector<size_t> cands;
    for (size_t i = 0; i < m.line.size(); ++i) if (m.line[i].arg >= 0 && m.line[i].hasValue && !cfg.args[m.line[i].arg].checks.empty() && !m.line[i].elems.empty()) cands.push_back(i);
    if (!cands.empty()) {
      size_t i = oneOf(cands);
      const ArgDef &a = cfg.args[m.line[i].arg];
      const Check &ch = oneOf(a.checks);
      std::string v;
      long long x;
      switch (ch.type) {
        case CH_LOWER: parseIntIn(ch.a, INT_MIN, INT_MAX, x); v = std::to_string(x - 1 - (pick(50) ? 0 : *range<int>(0, 50))); break;
        case CH_UPPER: parseIntIn(ch.a, INT_MIN, INT_MAX, x); v = std::to_string(x + (pick(60) ? 0 : *range<int>(1, 50))); break;
        case CH_RANGE: if (pick(50)) { parseIntIn(ch.a, INT_MIN, INT_MAX, x); v = std::to_string(x - 1); } else { parseIntIn(ch.b, INT_MIN, INT_MAX, x); v = std::to_string(x + (pick(60) ? 0 : 3)); } break;
        case CH_VALUES: v = pick(50) ? "nope" : "77777"; break;
        case CH_MINLEN: v = genString(0, std::max(0, atoi(ch.a.c_str()) - 1), "ab"); if (!isScalar(sk[a.slot]) && v.empty()) v = atoi(ch.a.c_str()) > 1 ? "a" : ""; break;
        case CH_MAXLEN: v = genString(atoi(ch.a.c_str()) + 1, atoi(ch.a.c_str()) + 4, "ab"); break;
        default: v = pick(50) ? "A?" : "Z9z!"; break;
      }
      if (a.spec == "-" && (v.empty() || needsAttach(v))) v.clear();   // positional: must stay a bare word, otherwise skip
      if (!v.empty() || (isScalar(sk[a.slot]) && a.spec != "-")) {
        size_t e = *range<size_t>(0, m.line[i].elems.size() - 1);
        m.line[i].elems[e] = v;
        m.ok = true;
      }
    }
  } else if (n == "excluded_after_excluder" || n == "missing_required") {
    std::vector<std::pair<int, int>> rel;
    for (size_t i = 0; i < cfg.args.size(); ++i)
      for (size_t ci = 0; ci < cfg.args[i].constraints.size(); ++ci) {
        auto &ct = cfg.args[i].constraints[ci];
        if ((ct.first == CT_EXCLUDES) != (n == "excluded_after_excluder")) continue;
        rel.push_back({static_cast<int>(i), ct.second});
        // later entries of a key list are three times as likely
        if (ci < cfg.args[i].ctStyle.size() && (cfg.args[i].ctStyle[ci] & 4)) { rel.push_back({static_cast<int>(i), ct.second}); rel.push_back({static_cast<int>(i), ct.second}); }
      }
    if (!rel.empty()) {
      auto r = oneOf(rel);
      Line l;
      for (auto &u : m.line) if (u.arg != r.first && u.arg != r.second) l.push_back(u);
      m.line = l;
      if (n == "excluded_after_excluder") {
        // excluder first, excluded one somewhere after it
        size_t p = *range<size_t>(0, m.line.size());
        m.line.insert(m.line.begin() + static_cast<long>(p), freshUse(r.first));
        size_t p2 = *range<size_t>(p + 1, m.line.size());
        m.line.insert(m.line.begin() + static_cast<long>(p2), freshUse(r.second));
      } else {
        // requiring argument used, required one missing or only BEFORE it
        size_t p = *range<size_t>(0, m.line.size());
        m.line.insert(m.line.begin() + static_cast<long>(p), freshUse(r.first));
        if (pick(40)) { size_t p2 = *range<size_t>(0, p); m.line.insert(m.line.begin() + static_cast<long>(p2), freshUse(r.second)); }
      }
      m.ok = true;
    }
  } else if (n == "all_of_partial" || n == "any_of_two" || n == "one_of_none" || n == "one_of_two") {
    int want = n == "all_of_partial" ? HC_ALL_OF : n == "any_of_two" ? HC_ANY_OF : HC_ONE_OF;
    std::vector<const HConstraint *> hs;
    for (auto &h : cfg.hcs) if (h.type == want) hs.push_back(&h);
    if (!hs.empty()) {
      const HConstraint &h = *oneOf(hs);
      Line l;
      for (auto &u : m.line) if (std::find(h.args.begin(), h.args.end(), u.arg) == h.args.end()) l.push_back(u);
      m.line = l;
      size_t count = n == "all_of_partial" ? *range<size_t>(1, h.args.size() - 1) : n == "one_of_none" ? 0 : 2;
      std::vector<int> pool = h.args;
      for (size_t j = 0; j < count && !pool.empty(); ++j) { size_t idx = *range<size_t>(0, pool.size() - 1); insertAt(freshUse(pool[idx])); pool.erase(pool.begin() + static_cast<long>(idx)); }
      m.ok = true;
    }
  } else if (n == "differ_equal" || n == "disjoint_common") {
    int want = n == "differ_equal" ? HC_DIFFER : HC_DISJOINT;
    std::vector<const HConstraint *> hs;
    for (auto &h : cfg.hcs) if (h.type == want) hs.push_back(&h);
    if (!hs.empty()) {
      const HConstraint &h = *oneOf(hs);
      // any two of the constraint's arguments; the others are used or not at random (an unused one in between must not
      // stop the comparison)
      size_t ix = *range<size_t>(0, h.args.size() - 1), iy = *range<size_t>(0, h.args.size() - 2);
      if (iy >= ix) ++iy;
      int x = h.args[ix], y = h.args[iy];
      Line l;
      for (auto &u : m.line) {
        if (u.arg == x || u.arg == y) continue;
        if (want == HC_DIFFER && std::find(h.args.begin(), h.args.end(), u.arg) != h.args.end() && pick(60)) continue;   // drop other members
        l.push_back(u);
      }
      m.line = l;
      Use ux = freshUse(x), uy = freshUse(y);
      // the positional argument takes bare words only: the common value comes from it, so that it never looks like a key
      if (want == HC_DIFFER && cfg.args[x].spec != "-" && cfg.args[y].spec == "-") std::swap(ux, uy);
      if (want == HC_DIFFER) uy.elems = ux.elems;
      else uy.elems.push_back(ux.elems[0]);
      insertAt(ux); insertAt(uy);
      m.ok = true;
    }
  } else if (n == "unique_duplicate") {
    std::vector<size_t> cands;
    for (size_t i = 0; i < m.line.size(); ++i) if (m.line[i].arg >= 0 && cfg.args[m.line[i].arg].unique == 2 && m.line[i].hasValue && !m.line[i].elems.empty()) cands.push_back(i);
    if (!cands.empty()) { size_t i = oneOf(cands); m.line[i].elems.push_back(m.line[i].elems[0]); m.ok = true; }
  } else if (n == "fixed_overflow" || n == "tuple_short") {
    std::vector<int> cands;
    for (size_t i = 0; i < cfg.args.size(); ++i) { int k = sk[cfg.args[i].slot]; if (n == "tuple_short" ? k == K_TUPLE_ISI : isFixed(k)) if (!cfg.args[i].deprecated) cands.push_back(static_cast<int>(i)); }
    if (!cands.empty()) {
      int a = oneOf(cands);
      Line l;
      for (auto &u : m.line) if (u.arg != a) l.push_back(u);
      m.line = l;
      Use u = freshUse(a);
      int kind = sk[cfg.args[a].slot];
      if (n == "tuple_short") u.elems.resize(*range<size_t>(1, 2));
      else { u.elems = genElems(cfg.args[a], kind, 4, 5, -1); if (kind == K_TUPLE_ISI) { u.elems = {"1", "x", "2", "3"}; } }
      if (cfg.args[a].unique) for (size_t j = 0; j < u.elems.size(); ++j) if (kind != K_TUPLE_ISI) u.elems[j] = std::to_string(1000 + j);
      insertAt(u);
      m.ok = true;
    }
  } else if (n == "bitset_range") {
    std::vector<size_t> cands;
    for (size_t i = 0; i < m.line.size(); ++i) if (m.line[i].arg >= 0 && sk[cfg.args[m.line[i].arg].slot] == K_BITSET10 && m.line[i].hasValue) cands.push_back(i);
    if (!cands.empty()) { size_t i = oneOf(cands); m.line[i].elems.push_back(std::to_string(*range<int>(10, 30))); m.ok = true; }
  } else if (n == "deprecated_use") {
    std::vector<int> cands;
    for (size_t i = 0; i < cfg.args.size(); ++i) if (cfg.args[i].deprecated) cands.push_back(static_cast<int>(i));
    if (!cands.empty()) { insertAt(freshUse(oneOf(cands))); m.ok = true; }
  } else if (n == "too_few_values") {
    std::vector<int> cands;
    for (size_t i = 0; i < cfg.args.size(); ++i) if ((cfg.args[i].cardKind == CARD_EXACT && cfg.args[i].cardA >= 2) || (cfg.args[i].cardKind == CARD_RANGE && cfg.args[i].cardA >= 2)) cands.push_back(static_cast<int>(i));
    if (!cands.empty()) {
      int a = oneOf(cands);
      Line l;
      for (auto &u : m.line) if (u.arg != a) l.push_back(u);
      m.line = l;
      Use u = freshUse(a);
      u.elems.resize(1);
      insertAt(u);
      m.ok = true;
    }
  }
  return m;
}

rc::Gen<Case> genBreak() {
  return rc::gen::exec([]() {
    Case c;
    Profile pf = profileFor("break");
    c.cfg = genConfig(pf);
    if (c.cfg.args.empty()) { c.discarded = true; c.discardWhy = "no_args"; return c; }
    Line base = genValidLine(c.cfg, pf);
    ModelResult m0 = evalModel(c.cfg, base);
    if (m0.verdict != ModelResult::ACCEPT) { c.discarded = true; c.discardWhy = "base_line_not_valid"; return c; }
    Mutated mu;
    for (int attempt = 0; attempt < 6 && !mu.ok; ++attempt) mu = mutate(c.cfg, base);
    if (!mu.ok) { c.discarded = true; c.discardWhy = "no_mutation_applicable"; return c; }
    ModelResult m = evalModel(c.cfg, mu.line);
    if (m.verdict != ModelResult::REJECT) { c.discarded = true; c.discardWhy = std::string("mutation_not_rejected_by_model.") + mu.name; return c; }
    c.mutation = mu.name;
    Variant v;
    v.line = mu.line;
    v.in.argv = {"prog"};
    SpellOptions so;
    so.canonical = pick(20);
    for (auto &w : spell(c.cfg, v.line, so)) v.in.argv.push_back(w);
    v.note = "broken";
    c.vars.push_back(v);
    return c;
  });
}


// ---------------------------------------------------------------- fold mode (C06)
// one container argument; the same element sequence cut in several ways; every cut must give the model's
// fold (or be rejected like the model), and all cuts must agree with each other.
std::string runFold(const Case &c) {
  auto &st = stats();
  if (c.discarded) { st.cls("discarded." + c.discardWhy); return ""; }
  classifyConfig(c.cfg);
  const ArgDef &a = c.cfg.args[0];
  const int kind = slotKinds()[a.slot];
  int verdict0 = -1;
  std::map<int, Val> state0;
  size_t maxUses = 0, freeWords = 0, elems = 0;
  for (size_t vi = 0; vi < c.vars.size(); ++vi) {
    const Variant &v = c.vars[vi];
    ModelResult m = evalModel(c.cfg, v.line);
    if (m.verdict == ModelResult::UNDEFINED) { st.cls("invalid_case.model_undefined"); return ""; }
    RealResult r = runReal(c.cfg, v.in);
    std::string where = "cut " + std::to_string(vi) + " argv " + argvText(v.in.argv) + ": ";
    if (r.setupThrew) return where + "library refused the configuration: " + r.what;
    if (m.verdict == ModelResult::REJECT) {
      if (!r.threw) return where + "the fold must be refused (" + m.reason + ") but evaluation succeeded";
      st.cls("fold.refused." + m.reason.substr(0, m.reason.find('(')));
    } else {
      if (r.threw) return where + "values were rejected: " + r.what;
      std::string d = compareStates(c.cfg, m.state, r.state);
      if (!d.empty()) return where + d;
    }
    if (verdict0 < 0) { verdict0 = m.verdict; state0 = r.state; }
    else {
      if (verdict0 != m.verdict) return where + "model verdict depends on the cut (generator bug)";
      if (m.verdict == ModelResult::ACCEPT) {
        std::string d = compareStates(c.cfg, state0, r.state);
        if (!d.empty()) return where + "two cuts of the same value sequence give different containers: " + d;
      }
    }
    maxUses = std::max(maxUses, v.line.size());
    size_t e = 0;
    for (auto &u : v.line) { freeWords += u.free.size(); e += u.elems.size(); for (auto &f : u.free) e += f.size(); }
    elems = std::max(elems, e);
  }
  st.cls(std::string("fold.kind.") + kindName(kind));
  if (freeWords) st.cls("fold.free_values");
  if (maxUses >= 2) st.cls("fold.repeated_use");
  bool option = a.clearFirst || a.sort || a.unique || a.listSep || a.format || !a.checks.empty() || !a.posFormats.empty();
  if ((maxUses >= 2 || freeWords) && elems >= 3 && option) st.markNontrivial();
  return "";
}

rc::Gen<Case> genFold() {
  return rc::gen::exec([]() {
    Case c;
    Profile pf;
    pf.onlyKind = *range<int>(K_VEC_INT, K_KINDS - 1);
    pf.minArgs = pf.maxArgs = 1;
    pf.checks = pick(30); pf.formats = pick(50); pf.cardinality = pick(25);
    c.cfg = genConfig(pf);
    if (c.cfg.args.empty()) { c.discarded = true; c.discardWhy = "no_args"; return c; }
    c.cfg.flags &= (F_NO_ABBR | F_END_VALUES);
    ArgDef &a = c.cfg.args[0];
    const int kind = slotKinds()[a.slot];
    const Val &iv = c.cfg.initial[a.slot];
    // the value sequence: generated elements, duplicates, elements equal to initial content, out-of-range positions
    int n = *range<int>(0, 12);
    if (kind == K_TUPLE_ISI) n = *rc::gen::weightedOneOf<int>({{6, just<int>(3)}, {1, range<int>(1, 5)}});
    if (isFixed(kind) && kind != K_TUPLE_ISI) n = *range<int>(0, 5);
    std::vector<std::string> all = genElems(a, kind, n, n, -1);
    for (size_t i = 0; i < all.size(); ++i) {
      if (kind == K_TUPLE_ISI) continue;
      if (i > 0 && pick(15)) all[i] = all[*range<size_t>(0, i - 1)];
      else if (!iv.elems.empty() && !isKeyValue(kind) && !isBits(kind) && pick(12)) all[i] = oneOf(iv.elems);
      else if (isBits(kind) && pick(8)) all[i] = std::to_string(*range<int>(8, 14));
    }
    if (all.empty()) { c.discarded = true; c.discardWhy = "empty_sequence"; return c; }
    int cuts = static_cast<int>(opt("cuts", 3));
    for (int k = 0; k < cuts; ++k) {
      Variant v;
      if (k == 0) { Use u; u.arg = 0; u.hasValue = true; u.elems = all; v.line.push_back(u); }   // everything in one list
      else v.line = cutIntoUses(a, 0, all, true);
      v.in.argv = {"prog"};
      SpellOptions so;
      so.doubledSepPercent = 20;
      for (auto &w : spell(c.cfg, v.line, so)) v.in.argv.push_back(w);
      v.note = "cut";
      c.vars.push_back(v);
    }
    return c;
  });
}


// ---------------------------------------------------------------- sources mode (C07 b)
std::string escapeWord(const std::string &w, int style) {
  // style 0: backslash before every special; 1: single quotes; 2: double quotes (only when the word is not empty)
  std::string r;
  if (style == 0 || w.empty()) { for (char c : w) { if (c == ' ' || c == '\'' || c == '"' || c == '\\') r += '\\'; r += c; } return r; }
  char q = style == 1 ? '\'' : '"';
  r += q;
  for (char c : w) { if (c == q || c == '\\') r += '\\'; r += c; }
  r += q;
  return r;
}

bool lineHasEmptyWord(const std::vector<std::string> &words) { for (auto &w : words) if (w.empty()) return true; return false; }

rc::Gen<Case> genSources() {
  return rc::gen::exec([]() {
    Case c;
    Profile pf = profileFor("valid");
    pf.inertExtras = pick(50);
    pf.minArgs = 3;
    pf.multiValuePct = 70;   // value lists that continue on the next line / source need multi-value arguments
    c.cfg = genConfig(pf);
    if (c.cfg.args.empty()) { c.discarded = true; c.discardWhy = "no_args"; return c; }
    Line base = genValidLine(c.cfg, pf);
    if (base.size() < 2) { c.discarded = true; c.discardWhy = "line_too_short"; return c; }
    if (evalModel(c.cfg, base).verdict != ModelResult::ACCEPT) { c.discarded = true; c.discardWhy = "line_not_valid"; return c; }
    const bool viaArgument = pick(50);
    const std::string envName = pick(50) ? "" : "MY_PROG_ARGS";
    const std::string prog = oneOf(std::vector<std::string>{"prog", "/usr/local/bin/prog", "./p", "some/dir/tool7", "x"});
    // evaluation order: file -> env -> argv with the program-argument file; env -> file -> argv when the file is named on argv
    size_t n = base.size();
    size_t i = *range<size_t>(0, n - 1), j = *range<size_t>(i, n - 1);
    if (i == 0 && j == 0) j = 1;
    const int first = viaArgument ? SRC_ENV : SRC_FILE, second = viaArgument ? SRC_FILE : SRC_ENV;
    Line split = base;
    for (size_t k = 0; k < n; ++k) split[k].source = k < i ? first : k < j ? second : SRC_ARGV;
    const bool nestedChoice = pick(75);
    const size_t nestedFrom = *range<size_t>(0, 7), nestedLen = *range<size_t>(0, 7);
    auto build = [&](const Line &line, bool allOnArgv, Variant &v) -> bool {
      SpellOptions so;
      so.withArgFile = viaArgument && !allOnArgv;
      std::vector<std::string> argvWords, envWords;
      std::string file, inner;
      bool haveFile = false, haveEnv = false;
      // nested argument files: some uses of the file part go into an inner file that the outer one names
      size_t fileUses = 0;
      for (auto &u : line) if (!allOnArgv && u.source == SRC_FILE) ++fileUses;
      const bool nested = viaArgument && !allOnArgv && fileUses >= 2 && nestedChoice;
      size_t innerFrom = 0, innerTo = 0, fileSeen = 0;
      if (nested) { innerFrom = nestedFrom % fileUses; innerTo = innerFrom + 1 + (nestedLen % (fileUses - innerFrom)); }
      for (size_t k = 0; k < line.size();) {
        int src = allOnArgv ? SRC_ARGV : line[k].source;
        if (src == SRC_ARGV) {
          // spell the whole argv part at once (flag groups may span uses)
          Line part(line.begin() + static_cast<long>(k), line.end());
          for (auto &u : part) if (!allOnArgv && u.source != SRC_ARGV) return false;
          for (auto &w : spell(c.cfg, part, so)) argvWords.push_back(w);
          break;
        }
        auto words = spell(c.cfg, Line{line[k]}, so);
        if (lineHasEmptyWord(words)) return false;   // an empty word cannot be written in a file line / environment string
        // the free values of a multi-value argument are ordinary words: they may continue on the next file line, and when
        // the argument is the last one of the file/environment part, on the real command line
        const bool multiValueUse = line[k].arg >= 0 && c.cfg.args[line[k].arg].multiValue && words.size() >= 3;
        auto bareFrom = [&](size_t from) { for (size_t w = from; w < words.size(); ++w) if (words[w].empty() || needsAttach(words[w])) return false; return true; };
        const bool lastBeforeArgv = k + 1 == line.size() || line[k + 1].source == SRC_ARGV;
        if (multiValueUse && !viaArgument && lastBeforeArgv && !(src == SRC_FILE && nested) && slotKinds()[c.cfg.args[line[k].arg].slot] != K_TUPLE_ISI &&
            (c.cfg.args[line[k].arg].cardKind == CARD_DEFAULT || c.cfg.args[line[k].arg].cardKind == CARD_NONE) && pick(60)) {
          size_t keep = *range<size_t>(2, words.size() - 1);
          if (bareFrom(keep)) {
            for (size_t w = keep; w < words.size(); ++w) argvWords.push_back(words[w]);
            words.resize(keep);
            v.note += " +values continued on argv";
          }
        }
        if (src == SRC_FILE && nested && fileSeen >= innerFrom && fileSeen < innerTo) {
          haveFile = true;
          if (fileSeen == innerFrom) { if (!file.empty() && file.back() != '\n') file += "\n"; file += "--arg-file @INNER@\n"; }
          for (size_t w = 0; w < words.size(); ++w) { if (w) inner += ' '; inner += escapeWord(words[w], *range<int>(0, 2)); }
          inner += "\n";
          ++fileSeen;
        } else if (src == SRC_FILE) {
          ++fileSeen;
          haveFile = true;
          const bool atLineStart = file.empty() || file.back() == '\n';
          if (atLineStart && pick(25)) file += pick(50) ? "# a comment line --input 5\n" : "\n";
          for (size_t w = 0; w < words.size(); ++w) {
            if (w && w >= 2 && multiValueUse && bareFrom(w) && pick(50)) {
              file += "\n";
              if (pick(25)) file += pick(50) ? "# comment between the values\n" : "\n";
              if (v.note.find("+values continued on the next line") == std::string::npos) v.note += " +values continued on the next line";
            } else if (w) file += std::string(static_cast<size_t>(*range<int>(1, 2)), ' ');
            file += escapeWord(words[w], *range<int>(0, 2));
          }
          // next use on the same line or on a new one
          bool moreFile = k + 1 < line.size() && line[k + 1].source == SRC_FILE;
          if (moreFile && pick(40)) file += " "; else file += "\n";
        } else {
          haveEnv = true;
          for (auto &w : words) envWords.push_back(w);
        }
        ++k;
      }
      if (!file.empty() && file.back() != '\n') file += "\n";
      v.in.argv = {prog};
      for (auto &w : argvWords) v.in.argv.push_back(w);
      v.in.haveFile = haveFile; v.in.fileBody = nested ? file + '\x02' + inner : file; v.in.fileViaArgument = viaArgument;
      v.in.haveEnv = haveEnv; v.in.envName = envName;
      for (size_t w = 0; w < envWords.size(); ++w) { if (w) v.in.envBody += std::string(static_cast<size_t>(*range<int>(1, 2)), ' '); v.in.envBody += escapeWord(envWords[w], *range<int>(0, 2)); }
      if (haveEnv && v.in.envBody.empty()) return false;
      v.line = line;
      if (allOnArgv) for (auto &u : v.line) u.source = SRC_ARGV;
      return true;
    };
    Variant v0, v1;
    v0.note = "all words on argv";
    v1.note = std::string("split over ") + (viaArgument ? "env, --arg-file, argv" : "program-argument file, env, argv");
    if (!build(split, true, v0) || !build(split, false, v1)) { c.discarded = true; c.discardWhy = "not_expressible_in_source"; return c; }
    if (evalModel(c.cfg, v1.line).verdict != ModelResult::ACCEPT) { c.discarded = true; c.discardWhy = "split_line_not_valid"; return c; }
    c.vars.push_back(v0);
    c.vars.push_back(v1);
    // override: a scalar given in a file/env source and again, with another value, on the real command line
    {
      const auto &sk = slotKinds();
      std::vector<size_t> cands;
      for (size_t k = j; k < n; ++k) if (isScalar(sk[c.cfg.args[split[k].arg].slot]) && c.cfg.args[split[k].arg].cardKind == CARD_DEFAULT) cands.push_back(k);
      if (!cands.empty() && pick(70)) {
        size_t k = oneOf(cands);
        Line ov = split;
        Use dup = split[k];
        const ArgDef &a = c.cfg.args[dup.arg];
        dup.elems = {genValidText(a, scalarValueType(sk[a.slot]), false)};
        if (dup.elems[0].empty()) dup.elems[0] = "x";
        if (a.spec == "-" && needsAttach(dup.elems[0])) dup.elems[0] = sk[a.slot] == K_STRING ? "p" + dup.elems[0].substr(1) : std::to_string(*range<int>(0, 99));   // a bare word
        dup.source = pick(50) ? first : second;
        size_t at = dup.source == first ? *range<size_t>(0, i) : *range<size_t>(i, j);
        ov.insert(ov.begin() + static_cast<long>(at), dup);
        Variant v2;
        v2.note = "override: value from a file/env source given again on argv";
        if (evalModel(c.cfg, ov).verdict == ModelResult::ACCEPT && build(ov, false, v2)) c.vars.push_back(v2);
      }
    }
    return c;
  });
}

std::string runSources(const Case &c) {
  auto &st = stats();
  if (c.discarded) { st.cls("discarded." + c.discardWhy); return ""; }
  classifyConfig(c.cfg);
  std::map<int, Val> baseline;
  for (size_t vi = 0; vi < c.vars.size(); ++vi) {
    const Variant &v = c.vars[vi];
    ModelResult m = evalModel(c.cfg, v.line);
    if (m.verdict != ModelResult::ACCEPT) { st.cls("invalid_case.model_not_accept"); return ""; }
    RealResult r = runReal(c.cfg, v.in);
    std::string where = "variant " + std::to_string(vi) + " (" + v.note + ") argv " + argvText(v.in.argv) +
                        (v.in.haveFile ? " file{" + v.in.fileBody + "}" : "") + (v.in.haveEnv ? " env{" + v.in.envBody + "}" : "") + ": ";
    if (r.setupThrew) return where + "library refused the configuration: " + r.what;
    if (r.threw) return where + "was rejected: " + r.what;
    std::string d = compareStates(c.cfg, m.state, r.state);
    if (!d.empty()) return where + d;
    if (vi == 0) baseline = r.state;
    else if (vi == 1) { std::string d2 = compareStates(c.cfg, baseline, r.state); if (!d2.empty()) return where + "differs from the same words given on argv: " + d2; }
    if (v.in.haveFile) st.cls(v.in.fileViaArgument ? "source.arg_file" : "source.prog_arg_file");
    if (v.in.haveEnv) st.cls(v.in.envName.empty() ? "source.env_default_name" : "source.env_named");
    if (v.in.haveFile && v.in.fileBody.find('#') != std::string::npos) st.cls("source.file_comment_line");
    if (v.in.haveFile && v.in.fileBody.find('\x02') != std::string::npos) st.cls(vi == 2 ? "source.nested_arg_file_override" : "source.nested_arg_file");
    if (vi == 2) st.cls("source.override");
    if (v.note.find("+values continued on the next line") != std::string::npos) st.cls("source.value_list_continued_on_next_line");
    if (v.note.find("+values continued on argv") != std::string::npos) st.cls("source.value_list_continued_on_argv");
  }
  const Variant &sp = c.vars[1];
  bool nonArgv = sp.in.haveFile || sp.in.haveEnv, fromArgv = false;
  for (auto &u : sp.line) if (u.source == SRC_ARGV) fromArgv = true;
  if (nonArgv && fromArgv) stats().markNontrivial();
  return "";
}



// arguments linked by a constraint (argument or handler constraint) must live in the same member handler:
// connected components first, then one random member per component
std::vector<int> partitionArgs(const Config &cfg, int members) {
  const size_t n = cfg.args.size();
  std::vector<int> comp(n);
  for (size_t i = 0; i < n; ++i) comp[i] = static_cast<int>(i);
  std::function<int(int)> find = [&](int x) { while (comp[x] != x) x = comp[x] = comp[comp[x]]; return x; };
  auto unite = [&](int x, int y) { comp[find(x)] = find(y); };
  for (size_t i = 0; i < n; ++i) for (auto &ct : cfg.args[i].constraints) unite(static_cast<int>(i), ct.second);
  for (auto &h : cfg.hcs) for (size_t k = 1; k < h.args.size(); ++k) unite(h.args[0], h.args[k]);
  std::map<int, int> memberOf;
  std::vector<int> groupOf(n);
  for (size_t i = 0; i < n; ++i) {
    int r = find(static_cast<int>(i));
    if (!memberOf.count(r)) memberOf[r] = *range<int>(0, members - 1);
    groupOf[i] = memberOf[r];
  }
  return groupOf;
}

// ---------------------------------------------------------------- groups mode (C08)
// differential: Groups::evalArguments over a partition of the arguments == one Handler owning all of them
rc::Gen<Case> genGroups() {
  return rc::gen::exec([]() {
    Case c;
    Profile pf = profileFor("groups");
    pf.minArgs = 2;
    c.cfg = genConfig(pf);
    if (c.cfg.args.size() < 2) { c.discarded = true; c.discardWhy = "too_few_args"; return c; }
    // hfEndValues etc. are group level flags; help flags would print through Groups: keep the evaluation flags only
    // (--endvalues is an argument of ONE handler; a second member defining it is refused, so it is left out here)
    c.cfg.flags &= F_NO_ABBR;
    Line base = genValidLine(c.cfg, pf);
    if (base.empty() || evalModel(c.cfg, base).verdict != ModelResult::ACCEPT) { c.discarded = true; c.discardWhy = "line_not_valid"; return c; }
    Line line = base;
    if (pick(45)) {
      Mutated mu;
      for (int attempt = 0; attempt < 6 && !mu.ok; ++attempt) mu = mutate(c.cfg, base);
      if (mu.ok && evalModel(c.cfg, mu.line).verdict == ModelResult::REJECT) { line = mu.line; c.mutation = mu.name; }
    }
    // partition: arguments linked by a constraint stay in one member
    int members = *range<int>(1, 4);
    std::vector<int> groupOf = partitionArgs(c.cfg, members);
    Variant v0, v1;
    v0.line = v1.line = line;
    v0.in.argv = {"prog"};
    SpellOptions so;
    for (auto &w : spell(c.cfg, line, so)) v0.in.argv.push_back(w);
    v1.in = v0.in;
    v1.in.groupCount = members;
    v1.in.groupOf = groupOf;
    v0.note = "single handler";
    v1.note = "group of " + std::to_string(members);
    c.vars.push_back(v0);
    c.vars.push_back(v1);
    return c;
  });
}

std::string runGroups(const Case &c) {
  auto &st = stats();
  if (c.discarded) { st.cls("discarded." + c.discardWhy); return ""; }
  classifyConfig(c.cfg);
  RealResult single = runReal(c.cfg, c.vars[0].in);
  RealResult group = runReal(c.cfg, c.vars[1].in);
  std::string where = (c.mutation.empty() ? std::string("valid line") : "mutation " + c.mutation) + " argv " + argvText(c.vars[0].in.argv) + " partition {";
  for (int g : c.vars[1].in.groupOf) where += std::to_string(g) + " ";
  where += "}: ";
  if (single.setupThrew) return where + "library refused the configuration (single handler): " + single.what;
  if (group.setupThrew) return where + "library refused the configuration in the group set-up but not stand-alone: " + group.what;
  if (!single.stdException || !group.stdException) return where + "non-std exception";
  if (single.threw != group.threw)
    return where + (single.threw ? "single handler rejects (" + single.what + ") but the group accepts" : "group rejects (" + group.what + ") but the single handler accepts");
  if (!single.threw) {
    std::string d = compareStates(c.cfg, single.state, group.state);
    if (!d.empty()) return where + "group evaluation stores different values: " + d;
  }
  // bookkeeping
  std::set<int> membersWithUsedArg;
  for (auto &u : c.vars[1].line) if (u.arg >= 0) membersWithUsedArg.insert(c.vars[1].in.groupOf[u.arg]);
  st.cls(single.threw ? "groups.both_reject" : "groups.both_accept");
  st.cls("groups.members_" + std::to_string(c.vars[1].in.groupCount));
  if (!c.mutation.empty() && single.threw) st.cls("groups.enforced." + c.mutation);
  if (membersWithUsedArg.size() >= 2) st.markNontrivial();
  return "";
}


// ---------------------------------------------------------------- mutate mode (C04, rapidcheck part)
// grammar-aware mutations of valid lines; any outcome is fine except a sanitizer report (the process dies and the
// driver picks the case up), a non-std exception, or a hang (alarm).
rc::Gen<Case> genMutate() {
  return rc::gen::exec([]() {
    Case c;
    Profile pf = profileFor("valid");
    c.cfg = genConfig(pf);
    if (c.cfg.args.empty()) { c.discarded = true; c.discardWhy = "no_args"; return c; }
    if (pick(30)) c.cfg.flags |= F_VERBOSE;
    Line base = genValidLine(c.cfg, pf);
    Variant v;
    v.line = base;
    std::vector<std::string> words = spell(c.cfg, base, SpellOptions());
    const std::vector<std::string> specials = {"=", "-", "--", "(", ")", "!", ",", ";", "---", "-=", "--=", "--=x", "-!", "!-", "-(", "--(", "=-", "-- --"};
    auto randomBytes = [&](int maxLen) { std::string r; int n = *range<int>(0, maxLen); for (int i = 0; i < n; ++i) r += static_cast<char>(*range<int>(1, 255)); return r; };
    int nm = *range<int>(1, 4);
    for (int k = 0; k < nm; ++k) {
      int op = *range<int>(0, 9);
      if (words.empty() && op != 6 && op != 7) op = 6;
      size_t i = words.empty() ? 0 : *range<size_t>(0, words.size() - 1);
      switch (op) {
        case 0: words.erase(words.begin() + static_cast<long>(i)); break;
        case 1: words.insert(words.begin() + static_cast<long>(i), words[i]); break;
        case 2: { size_t j = *range<size_t>(0, words.size() - 1); std::swap(words[i], words[j]); break; }
        case 3: words[i] = words[i].substr(0, *range<size_t>(0, words[i].size())); break;
        case 4: { size_t p = *range<size_t>(0, words[i].size()); words[i].insert(p, oneOf(specials)); break; }
        case 5: words[i] = randomBytes(20); break;
        case 6: words.insert(words.begin() + static_cast<long>(*range<size_t>(0, words.size())), oneOf(specials)); break;
        case 7: words.insert(words.begin() + static_cast<long>(*range<size_t>(0, words.size())), randomBytes(12)); break;
        case 8: words[i] += std::string(static_cast<size_t>(*range<int>(100, 400)), pick(50) ? 'x' : '-'); break;
        default: { size_t p = *range<size_t>(0, words[i].size()); words[i] = words[i].substr(p); break; }
      }
    }
    std::string prog = "prog";
    int pn = *range<int>(0, 9);
    if (pn == 0) prog = "";
    else if (pn == 1) prog = "p";
    else if (pn == 2) prog = std::string(static_cast<size_t>(*range<int>(1, 40)), 'n');
    else if (pn == 3) prog = "/a/b/" + std::string(static_cast<size_t>(*range<int>(0, 300)), 'q');
    else if (pn == 4) prog = "dir/";
    else if (pn == 5) prog = "/";
    v.in.argv = {prog};
    for (auto &w : words) v.in.argv.push_back(w);
    // sources: sometimes a file and/or an environment string built from (mutated) words as well
    if (pick(35)) {
      v.in.haveFile = true; v.in.fileViaArgument = pick(30);
      int nl = *range<int>(0, 4);
      for (int l = 0; l < nl; ++l) {
        int kind = *range<int>(0, 5);
        if (kind == 0) v.in.fileBody += "# comment\n";
        else if (kind == 1) v.in.fileBody += "\n";
        else if (kind == 2) v.in.fileBody += randomBytes(30) + "\n";
        else { for (auto &w : spell(c.cfg, genValidLine(c.cfg, pf), SpellOptions())) v.in.fileBody += w + " "; v.in.fileBody += pick(80) ? "\n" : ""; }
      }
    }
    if (pick(35)) {
      v.in.haveEnv = true; v.in.envName = pick(50) ? "" : "MY_PROG_ARGS";
      if (pick(30)) v.in.envBody = randomBytes(30);
      else for (auto &w : spell(c.cfg, genValidLine(c.cfg, pf), SpellOptions())) v.in.envBody += w + (pick(20) ? "'" : " ");
    }
    if (pick(30) && !v.in.haveFile && !v.in.haveEnv) {
      v.in.groupCount = *range<int>(1, 3);
      c.cfg.flags &= F_NO_ABBR;
      std::vector<int> groupOf = partitionArgs(c.cfg, v.in.groupCount);
      v.in.groupOf = groupOf;
    }
    v.note = "mutated";
    c.vars.push_back(v);
    return c;
  });
}

std::string runMutate(const Case &c) {
  auto &st = stats();
  if (c.discarded) { st.cls("discarded." + c.discardWhy); return ""; }
  const Variant &v = c.vars[0];
  alarm(30);   // "evaluation terminates": a hang kills the process with SIGALRM, the driver keeps the case
  RealResult r = runReal(c.cfg, v.in);
  alarm(0);
  if (r.threw && !r.stdException) return "argv " + argvText(v.in.argv) + ": an exception that is not derived from std::exception escaped";
  st.cls(r.setupThrew ? "outcome.setup_exception" : r.threw ? "outcome.exception" : "outcome.return");
  if (v.in.haveFile) st.cls("mutate.file_source");
  if (v.in.haveEnv) st.cls("mutate.env_source");
  if (v.in.groupCount) st.cls("mutate.groups");
  if (v.in.argv.size() >= 2) st.markNontrivial();
  return "";
}


// ---------------------------------------------------------------- usage mode (C18)
std::string markerOf(size_t i) { return "MK" + std::to_string(i) + "QX"; }

rc::Gen<Case> genUsage() {
  return rc::gen::exec([]() {
    Case c;
    Profile pf = profileFor("valid");
    pf.inertExtras = false;
    pf.minArgs = 1; pf.maxArgs = 10;
    c.cfg = genConfig(pf);
    if (c.cfg.args.empty()) { c.discarded = true; c.discardWhy = "no_args"; return c; }
    Config &cfg = c.cfg;
    // usage relevant flags
    cfg.flags &= (F_NO_ABBR | F_END_VALUES);
    cfg.flags |= pick(50) ? F_HELP_SHORT : F_HELP_LONG;
    if (pick(40)) cfg.flags |= F_HELP_SHORT | F_HELP_LONG;
    for (int bit : {F_USAGE_HIDDEN, F_ARG_HIDDEN, F_USAGE_DEPRECATED, F_ARG_DEPRECATED, F_USAGE_SHORT, F_USAGE_LONG, F_LIST_ARG_VAR}) if (pick(35)) cfg.flags |= bit;
    if (pick(50)) cfg.flags |= F_HELP_ARG;
    if (pick(40)) cfg.flags |= F_HELP_ARG_FULL;
    if (pick(50)) cfg.flags |= (*range<int>(60, 239)) << 20;
    // visibility attributes, descriptions with a unique marker word, long keys around the same-line threshold
    const std::vector<std::string> vocab = {"the", "value", "of", "this", "argument", "is", "used", "to", "select", "input", "files", "and", "more", "x", "configuration"};
    std::set<std::string> longKeys;
    for (auto &a : cfg.args) longKeys.insert(a.longKey);
    bool oneCharLong = false;
    for (size_t i = 0; i < cfg.args.size(); ++i) {
      ArgDef &a = cfg.args[i];
      if (a.shortKey == 'h') { a.shortKey = 'H'; for (auto &ch : a.spec) if (ch == 'h' && (&ch == &a.spec[0] || *(&ch - 1) == '-' || *(&ch - 1) == ',') && (&ch == &a.spec.back() || *(&ch + 1) == ',')) ch = 'H'; }   // -h is the help argument here
      a.hidden = pick(30);
      a.deprecated = false; a.replacedBy.clear();
      if (!a.mandatory && pick(30)) { a.deprecated = true; if (pick(50)) a.replacedBy = "--new-name"; }
      // only plain scalar destinations (and tuples) can print a default value; for the others the library default (off) is kept
      { int k = slotKinds()[a.slot]; a.printDefault = (k == K_INT || k == K_LONG || k == K_UINT || k == K_DOUBLE || k == K_STRING || k == K_TUPLE_ISI) ? *range<int>(0, 2) : 0; }
      if (!a.longKey.empty() && !a.shortKey && a.constraints.empty() && pick(20)) {
        // a long key of one character, which only the explicit form "--x" can define
        std::string free;
        for (char ch = 'i'; ch <= 'z'; ++ch) { bool taken = false; for (auto &o : cfg.args) if (o.shortKey == ch || o.longKey == std::string(1, ch)) taken = true; if (!taken) free += ch; }
        bool referenced = false;
        for (auto &o : cfg.args) for (auto &ct : o.constraints) if (ct.second == static_cast<int>(i)) referenced = true;
        for (auto &hc : cfg.hcs) for (int x : hc.args) if (x == static_cast<int>(i)) referenced = true;
        if (!free.empty() && !referenced) { a.longKey = std::string(1, free[*range<size_t>(0, free.size() - 1)]); a.spec = "--" + a.longKey; oneCharLong = true; }
      } else
      if (!a.longKey.empty() && pick(25)) {
        std::string k = "very-long-argument-name-number-" + std::to_string(i) + "-";
        // printed key ("--key" or "-x,--key"): half of them right around the same-line threshold of 40 characters
        size_t printed = pick(50) ? *range<size_t>(38, 42) : *range<size_t>(38, 51);
        size_t want = printed - (a.shortKey ? 5 : 2);
        while (k.size() < want) k += 'z';
        a.longKey = k;
        a.spec = a.shortKey ? std::string(1, a.shortKey) + "," + k : k;
      }
      int nw = *rc::gen::weightedOneOf<int>({{3, range<int>(1, 6)}, {2, range<int>(7, 25)}, {1, range<int>(26, 60)}});
      int markerAt = *range<int>(0, nw - 1);
      a.desc.clear();
      for (int w = 0; w < nw; ++w) { if (w) a.desc += ' '; a.desc += (w == markerAt) ? markerOf(i) : oneOf(vocab); }
    }
    // sub-group: some arguments live in a sub-group handler with its own -h; its usage shares the display settings
    bool subUsage = false;
    if (cfg.args.size() >= 2 && pick(35)) {
      size_t ns = *range<size_t>(1, std::min<size_t>(3, cfg.args.size() - 1));
      for (size_t i = 0; i < cfg.args.size() && ns > 0; ++i)
        if (cfg.args[i].constraints.empty() && cfg.args[i].spec != "-" && pick(50)) { bool target = false; for (auto &o : cfg.args) for (auto &ct : o.constraints) if (ct.second == static_cast<int>(i)) target = true; bool inHc = false; for (auto &hc : cfg.hcs) for (int x : hc.args) if (x == static_cast<int>(i)) inHc = true; if (!target && !inHc) { cfg.args[i].inSubGroup = true; --ns; } }
      for (auto &a : cfg.args) if (a.inSubGroup) subUsage = pick(60);
      // the main handler does its final checks after the sub-group printed its usage: no mandatory arguments then
      if (subUsage) { for (auto &a : cfg.args) a.mandatory = a.inSubGroup ? a.mandatory : false; cfg.hcs.clear(); }   // (nor end conditions of handler constraints)
    }
    // the line
    Variant v;
    v.in.argv = {"prog"};
    int kind = *range<int>(0, 9);
    if (subUsage) kind = 0;
    if (kind <= 6) {
      // full usage with settings given before the help argument
      if ((cfg.flags & F_ARG_HIDDEN) && !(cfg.flags & F_USAGE_HIDDEN) && pick(60)) v.in.argv.push_back("--print-hidden");
      if ((cfg.flags & F_ARG_DEPRECATED) && !(cfg.flags & F_USAGE_DEPRECATED) && pick(60)) v.in.argv.push_back("--print-deprecated");
      bool s = (cfg.flags & F_USAGE_SHORT) && pick(50);
      if (s) v.in.argv.push_back("--help-short");
      else if ((cfg.flags & F_USAGE_LONG) && pick(50)) v.in.argv.push_back("--help-long");
      bool haveShort = cfg.flags & F_HELP_SHORT, haveLong = cfg.flags & F_HELP_LONG;
      if (subUsage) { v.in.argv.push_back(pick(50) ? "-G" : "--sub-group"); v.in.argv.push_back(pick(50) ? "-h" : "--help"); v.note = "usage-sub"; }
      else { v.in.argv.push_back(haveShort && (!haveLong || pick(50)) ? "-h" : "--help"); v.note = "usage"; }
    } else if (cfg.flags & (F_HELP_ARG | F_HELP_ARG_FULL)) {
      std::string helpKey = (cfg.flags & F_HELP_ARG) && (!(cfg.flags & F_HELP_ARG_FULL) || pick(50)) ? "--help-arg" : "--help-arg-full";
      std::string key;
      std::vector<const ArgDef *> keyed;
      for (auto &a : cfg.args) if ((a.shortKey || !a.longKey.empty()) && !a.inSubGroup) keyed.push_back(&a);
      if (!keyed.empty() && pick(80)) { const ArgDef &a = *oneOf(keyed); key = (a.shortKey && (a.longKey.empty() || pick(50))) ? std::string(1, a.shortKey) : a.longKey; }
      else key = pick(50) ? "Q" : "no-such-argument";
      v.in.argv.push_back(helpKey + "=" + key);
      v.note = "help-arg " + key;
    } else { c.discarded = true; c.discardWhy = "no_help_arg_flag"; return c; }
    c.vars.push_back(v);
    return c;
  });
}

size_t countOccurrences(const std::string &hay, const std::string &needle) {
  size_t n = 0, p = 0;
  while ((p = hay.find(needle, p)) != std::string::npos) { ++n; p += needle.size(); }
  return n;
}

// C17 through the usage printer (--opt layout=1): the argument descriptions are text blocks. Every indented line of the argument
// sections that holds two or more description words must fit into the usage line length (60..239, default 80); the key of an
// entry line is not a description word. Nothing else is judged in this mode (the listing itself is C18's business).
std::string usageLayout(const Config &cfg, const std::string &out) {
  auto &st = stats();
  const size_t width = usageLineLength(cfg.flags) ? static_cast<size_t>(usageLineLength(cfg.flags)) : 80;
  size_t p = out.find("arguments:");
  if (p == std::string::npos) return "";
  size_t maxKey = 0;
  bool wrapped = false;
  while (p < out.size()) {
    size_t e = out.find('\n', p);
    if (e == std::string::npos) e = out.size();
    const std::string line = out.substr(p, e - p);
    p = e + 1;
    if (line.size() < 4 || line.compare(0, 3, "   ") != 0) continue;
    const bool keyLine = line[3] == '-';
    size_t words = 0;
    { std::istringstream is(line); std::string w; while (is >> w) ++words; }
    if (keyLine) { size_t ke = line.find(' ', 3); maxKey = std::max(maxKey, (ke == std::string::npos ? line.size() : ke) - 3); if (words) --words; }
    else wrapped = true;
    if (line.size() > width && words >= 2)
      return "usage line holds " + std::to_string(words) + " description words and is " + std::to_string(line.size()) + " long, line length " + std::to_string(width) + ": \"" + line + "\"";
  }
  st.cls("layout.judged");
  if (wrapped) st.cls("layout.wrapped_description");
  if (maxKey >= 38 && maxKey <= 42) st.cls("layout.longest_key_" + std::to_string(maxKey));
  if (wrapped) st.markNontrivial();
  return "";
}

std::string runUsage(const Case &c) {
  auto &st = stats();
  if (c.discarded) { st.cls("discarded." + c.discardWhy); return ""; }
  const Config &cfg = c.cfg;
  const Variant &v = c.vars[0];
  RealInput rin = v.in;
  rin.usageAgain = v.note == "usage";   // a handler may print its usage more than once: the second output must be the same listing
  RealResult r = runReal(cfg, rin);
  std::string where = "argv " + argvText(v.in.argv) + ": ";
  if (r.setupThrew) return where + "library refused the configuration: " + r.what;
  if (r.threw) return where + "help evaluation threw: " + r.what;
  const std::string &out = r.out;
  auto has = [&](const std::string &w) { return std::find(v.in.argv.begin(), v.in.argv.end(), w) != v.in.argv.end(); };
  if (opt("layout", 0)) {
    if (v.note.compare(0, 8, "help-arg") == 0) return "";
    std::string l = usageLayout(cfg, out);
    return l.empty() ? "" : where + l;
  }
  if (v.note.compare(0, 8, "help-arg") == 0) {
    std::string key = v.note.substr(9);
    int target = -1;
    for (size_t i = 0; i < cfg.args.size(); ++i) if ((key.size() == 1 && cfg.args[i].shortKey == key[0]) || (key.size() > 1 && cfg.args[i].longKey == key)) target = static_cast<int>(i);
    for (size_t i = 0; i < cfg.args.size(); ++i) {
      size_t n = countOccurrences(out, markerOf(i));
      if (static_cast<int>(i) == target) { if (n != 1) return where + "help for argument '" + key + "' shows its description " + std::to_string(n) + " times"; }
      else if (n != 0) return where + "help for argument '" + key + "' also shows the description of '" + cfg.args[i].spec + "'";
    }
    if (target < 0) {
      if (r.err.find("is unknown") == std::string::npos) return where + "unknown argument '" + key + "' was not reported as unknown";
      st.cls("usage.help_arg_unknown");
    } else st.cls("usage.help_arg");
    st.markNontrivial();
    return "";
  }
  // full usage
  const bool printHidden = (cfg.flags & F_USAGE_HIDDEN) || has("--print-hidden");
  const bool printDeprecated = (cfg.flags & F_USAGE_DEPRECATED) || has("--print-deprecated");
  const bool shortOnly = has("--help-short"), longOnly = has("--help-long");
  const bool subUsage = v.note == "usage-sub";
  const size_t posMand = out.find("Mandatory arguments:"), posOpt = out.find("Optional arguments:");
  // entries: lines indented by exactly 3 blanks that start with '-'
  std::vector<std::pair<size_t, std::string>> entryStarts;   // offset, key text
  {
    size_t p = 0;
    while (p < out.size()) {
      size_t e = out.find('\n', p);
      if (e == std::string::npos) e = out.size();
      std::string line = out.substr(p, e - p);
      if (line.size() > 4 && line.compare(0, 3, "   ") == 0 && line[3] == '-') {
        size_t ke = line.find(' ', 3);
        entryStarts.push_back({p, line.substr(3, ke == std::string::npos ? std::string::npos : ke - 3)});
      }
      p = e + 1;
    }
  }
  size_t visible = 0, invisible = 0;
  for (size_t i = 0; i < cfg.args.size(); ++i) {
    const ArgDef &a = cfg.args[i];
    bool vis = (printHidden || !a.hidden) && (printDeprecated || !a.deprecated) && (!shortOnly || a.shortKey) && (!longOnly || !a.longKey.empty());
    if (a.inSubGroup != subUsage) vis = false;   // the usage of a handler lists its own arguments only
    size_t n = countOccurrences(out, markerOf(i));
    std::string who = "argument '" + a.spec + "'" + (a.hidden ? " [hidden]" : "") + (a.deprecated ? " [deprecated]" : "") + (a.mandatory ? " [mandatory]" : "");
    if (!vis) { ++invisible; if (n != 0) return where + who + " must not be listed but appears " + std::to_string(n) + " times"; continue; }
    ++visible;
    if (n != 1) return where + who + " must be listed exactly once but appears " + std::to_string(n) + " times";
    size_t mp = out.find(markerOf(i));
    // caption
    if (a.mandatory) {
      if (posMand == std::string::npos || mp < posMand || (posOpt != std::string::npos && mp > posOpt)) return where + who + " is not listed under the mandatory caption";
    } else if (posOpt == std::string::npos || mp < posOpt) return where + who + " is not listed under the optional caption";
    // its entry: last entry start before the marker
    int ei = -1;
    for (size_t k = 0; k < entryStarts.size(); ++k) if (entryStarts[k].first < mp) ei = static_cast<int>(k);
    if (ei < 0) return where + who + ": description is not preceded by a key line";
    std::string expectKey = shortOnly ? std::string("-") + a.shortKey : longOnly ? "--" + a.longKey
                            : (a.shortKey ? std::string("-") + a.shortKey + (a.longKey.empty() ? "" : ",--" + a.longKey) : "--" + a.longKey);
    if (entryStarts[static_cast<size_t>(ei)].second != expectKey) return where + who + " is listed with the keys '" + entryStarts[static_cast<size_t>(ei)].second + "', expected '" + expectKey + "'";
    size_t endOfEntry = static_cast<size_t>(ei) + 1 < entryStarts.size() ? entryStarts[static_cast<size_t>(ei) + 1].first : out.size();
    std::string entry = out.substr(entryStarts[static_cast<size_t>(ei)].first, endOfEntry - entryStarts[static_cast<size_t>(ei)].first);
    auto expectNote = [&](const char *note, bool expected) -> std::string {
      bool present = entry.find(note) != std::string::npos;
      if (present != expected) return where + who + ": '" + note + "' " + (expected ? "missing" : "unexpected") + " in its entry";
      return "";
    };
    std::string e;
    if (a.printDefault) { e = expectNote("Default value:", !a.mandatory && a.printDefault == 1); if (!e.empty()) return e; }
    e = expectNote("Check:", !a.checks.empty()); if (!e.empty()) return e;
    e = expectNote("Constraint:", !a.constraints.empty()); if (!e.empty()) return e;
    e = expectNote("[hidden]", a.hidden); if (!e.empty()) return e;
    e = expectNote("[deprecated]", a.deprecated && a.replacedBy.empty()); if (!e.empty()) return e;
    e = expectNote("[replaced by", a.deprecated && !a.replacedBy.empty()); if (!e.empty()) return e;
    if (a.longKey.size() >= 36) st.cls("usage.long_key_own_line");
    if (a.longKey.size() == 1) st.cls("usage.one_character_long_key");
  }
  if (v.note == "usage" && !r.out2.empty()) {
    if (out.find(r.out2) == std::string::npos) return where + "the same handler lists its arguments differently when it is printed a second time: \"" + r.out2.substr(0, 300) + "\"";
    st.cls("usage.printed_twice");
  }
  st.cls(subUsage ? "usage.sub_group" : "usage.full");
  if (printHidden) st.cls("usage.print_hidden");
  if (printDeprecated) st.cls("usage.print_deprecated");
  if (shortOnly) st.cls("usage.short_only");
  if (longOnly) st.cls("usage.long_only");
  if (usageLineLength(cfg.flags)) st.cls("usage.line_length_set");
  if (invisible >= 1 && visible >= 2 && (printHidden || printDeprecated || shortOnly || longOnly || usageLineLength(cfg.flags))) st.markNontrivial();
  return "";
}

// non-trivial rule for the valid modes is evaluated from the case content
void markValidNontrivial(const Case &c, const std::string &mode) {
  if (c.discarded || c.vars.empty()) return;
  std::set<int> usedArgs;
  for (auto &u : c.vars[0].line) usedArgs.insert(u.arg);
  if (mode == "spell") {
    // >= 2 arguments used and >= 2 distinct spelling features over the variants
    std::set<std::string> features;
    for (auto &v : c.vars) {
      for (size_t i = 1; i < v.in.argv.size(); ++i) {
        const std::string &w = v.in.argv[i];
        if (w.size() > 2 && w[0] == '-' && w[1] == '-' && w.find('=') != std::string::npos) features.insert("eq");
        if (w.size() > 2 && w[0] == '-' && w[1] != '-') features.insert("group_or_glue");
        if (w.size() > 2 && w[0] == '-' && w[1] == '-') {
          std::string key = w.substr(2, w.find('=') == std::string::npos ? std::string::npos : w.find('=') - 2);
          bool exact = false;
          for (auto &a : c.cfg.args) if (a.longKey == key) exact = true;
          if (!exact && key != "endvalues") features.insert("abbrev");
        }
      }
      if (&v != &c.vars[0]) { bool same = v.line.size() == c.vars[0].line.size(); if (same) for (size_t i = 0; i < v.line.size(); ++i) if (v.line[i].arg != c.vars[0].line[i].arg) same = false; if (!same) features.insert("reordered"); }
    }
    for (auto &f : features) stats().cls("feature." + f);
    if (usedArgs.size() >= 2 && features.size() >= 2) stats().markNontrivial();
  } else {
    bool active = false;
    for (int a : usedArgs) {
      if (a < 0) continue;
      const ArgDef &ad = c.cfg.args[a];
      if (!ad.checks.empty() || !ad.constraints.empty() || ad.cardKind != CARD_DEFAULT || ad.format) active = true;
      for (auto &h : c.cfg.hcs) if (std::find(h.args.begin(), h.args.end(), a) != h.args.end()) active = true;
    }
    if (active && usedArgs.size() >= 2) stats().markNontrivial();
  }
}

struct Init {
  Init() {
    for (std::string mode : {"spell", "valid"}) {
      auto &m = addMode<Case>(mode);
      m.gen = [mode]() { return genSpell(mode); };
      m.run = [mode](const Case &c) { std::string r = runValid(c); if (r.empty()) markValidNontrivial(c, mode); return r; };
      m.show = showCase; m.parse = parseCase;
    }
    auto &f = addMode<Case>("fold");
    f.gen = genFold; f.run = runFold; f.show = showCase; f.parse = parseCase;
    auto &so = addMode<Case>("sources");
    so.gen = genSources; so.run = runSources; so.show = showCase; so.parse = parseCase;
    auto &g = addMode<Case>("groups");
    g.gen = genGroups; g.run = runGroups; g.show = showCase; g.parse = parseCase;
    auto &mu = addMode<Case>("mutate");
    mu.gen = genMutate; mu.run = runMutate; mu.show = showCase; mu.parse = parseCase;
    auto &us = addMode<Case>("usage");
    us.gen = genUsage; us.run = runUsage; us.show = showCase; us.parse = parseCase;
    auto &b = addMode<Case>("break");
    b.gen = genBreak; b.run = runBreak; b.show = showCase; b.parse = parseCase;
  }
} init;

}  // namespace

int main(int argc, char **argv) { return harnessMain(argc, argv); }
