// C15 - rolling log files keep the most recent messages, complete and in order.
//
// Case  = policy kind (Counted / MaxSize) + limit + maximum number of generations + the three message
//         lengths + access path (policy object directly / through files::Handler) + history over
//         {write short, write medium, write long, reopen}.
// run() = real policy objects on a fresh directory (real ofstream, real rename), and after EVERY event
//         the directory is read back and judged by
//           P0  only generation files log.00 .. log.<gens-1> exist                               (naming / "number of files <= generations")
//           P1  every file is a sequence of complete lines, each one a message that was written   ("without truncation")
//           P2  generations concatenated oldest -> newest = contiguous suffix of the written
//               sequence                                                                          ("most recent messages in the order written, without loss, duplication")
//           P3  no file above its limit (bytes on disk / lines)                                   ("no generation exceeds its configured limit")
//           P4  the step from the previous directory state is one of the permitted ones:
//               append to generation 0, or roll (every generation moves up by one, the one that
//               would get number <gens> is dropped, generation 0 starts with the new message),
//               the roll being permitted only when the message "would exceed" the limit            ("a new generation is started only when ...")
//               and a reopen changing nothing or rolling where the policy documents it.
//         The reference model is the directory state itself (a map generation -> lines); it is
//         independent of the policies' counters.
#include "common/verif.hpp"

#include "celma/log/detail/i_format_stream.hpp"
#include "celma/log/detail/log_msg.hpp"
#include "celma/log/filename/builder.hpp"
#include "celma/log/filename/creator.hpp"
#include "celma/log/filename/definition.hpp"
#include "celma/log/files/counted.hpp"
#include "celma/log/files/handler.hpp"
#include "celma/log/files/max_size.hpp"

#include <dirent.h>
#include <sys/stat.h>
#include <sys/types.h>

using namespace verif;
namespace clf = celma::log::files;
namespace clfn = celma::log::filename;
using celma::log::detail::LogMsg;

namespace {

enum Kind { COUNTED = 0, MAXSIZE = 1 };
// W_OVER: a message that is longer than the size limit (MaxSize); it can only live alone in a generation
enum Ev { W_SHORT = 0, W_MEDIUM = 1, W_LONG = 2, REOPEN = 3, W_OVER = 4 };
const char kEvChar[] = {'s', 'm', 'l', 'R', 'X', 0};

struct Case {
  int kind = COUNTED;
  size_t limit = 1;          // max entries (Counted) / max bytes (MaxSize)
  int gens = 1;              // maximum number of generations
  bool viaHandler = false;   // policy used directly, or owned by a files::Handler (the way the log framework uses it)
  size_t len[3] = {3, 3, 3}; // text length of a short / medium / long message
  std::vector<uint8_t> events;
};

const size_t kMinLen = 3;      // "m<k>" with k <= 99
const size_t kMaxWrites = 100;

// ------------------------------------------------------------------ domain
// Every message fits into an empty file under the strictest reading of the limit (text + newline
// stays strictly below the limit), so that no reading of "would exceed" forces two rolls in a row.
std::string domainError(const Case &c) {
  if (c.kind != COUNTED && c.kind != MAXSIZE) return "bad policy kind";
  if (c.gens < 1 || c.gens > 99) return "generations outside 1..99";
  if (c.kind == COUNTED && c.limit < 1) return "max entries < 1";
  for (size_t l : c.len) {
    if (l < kMinLen) return "message length below 3";
    if (c.kind == MAXSIZE && l + 1 >= c.limit) return "message does not fit strictly below the limit into an empty file";
    if (l > 4000) return "message length too large";
  }
  size_t writes = 0;
  for (auto e : c.events) { if (e > W_OVER) return "bad event"; if (e != REOPEN) ++writes; }
  if (writes > kMaxWrites) return "more than 100 writes";
  return "";
}

std::string messageText(size_t k, size_t len) {
  std::string t = "m" + std::to_string(k);
  if (t.size() < len) t.append(len - t.size(), '-');
  return t;
}

// ------------------------------------------------------------------ scratch directory
[[noreturn]] void infra(const std::string &what) {
  std::cerr << "log_roll: infrastructure problem: " << what << " (" << strerror(errno) << ")\n";
  _exit(2);
}

std::string gProcessDir;

void removeProcessDir() {
  if (!gProcessDir.empty()) { rmdir((gProcessDir + "/case").c_str()); rmdir(gProcessDir.c_str()); }
}

void mkdirs(const std::string &p) {
  for (size_t i = 1; i <= p.size(); ++i)
    if (i == p.size() || p[i] == '/') mkdir(p.substr(0, i).c_str(), 0755);
}

// <scratch>/log_roll-<pid>; scratch = $VERIF_SCRATCH, else /dev/shm, else /verif/build/run. Never /tmp.
const std::string &processDir() {
  if (!gProcessDir.empty()) return gProcessDir;
  std::vector<std::string> cands;
  const char *e = getenv("VERIF_SCRATCH");
  if (e && *e) cands.push_back(e);
  cands.push_back("/dev/shm");
  cands.push_back("/verif/build/run");
  for (auto &c : cands) {
    if (c.compare(0, 5, "/tmp/") == 0 || c == "/tmp") continue;
    if (c != "/dev/shm") mkdirs(c);
    std::string d = c + "/log_roll-" + std::to_string(getpid());
    if (mkdir(d.c_str(), 0755) == 0 || errno == EEXIST) { gProcessDir = d; atexit(removeProcessDir); return gProcessDir; }
  }
  infra("no usable scratch directory");
}

void wipeDir(const std::string &dir) {
  DIR *d = opendir(dir.c_str());
  if (!d) return;
  while (dirent *de = readdir(d)) {
    std::string n = de->d_name;
    if (n == "." || n == "..") continue;
    unlink((dir + "/" + n).c_str());
  }
  closedir(d);
  rmdir(dir.c_str());
}

struct CaseDir {
  std::string path;
  CaseDir() : path(processDir() + "/case") {
    wipeDir(path);   // left over from a case that died
    if (mkdir(path.c_str(), 0755) != 0) infra("cannot create " + path);
  }
  ~CaseDir() { wipeDir(path); }
};

// ------------------------------------------------------------------ observation
using Lines = std::vector<std::string>;
using DirState = std::map<int, Lines>;   // generation number -> complete lines

// the generation number is written with a fixed *minimum* width: 2 normally, 1 for the configurations with 10 and more
// generations (names log.0 .. log.9, log.10, log.11)
int gNumWidth = 2;
std::string genName(int g) { char b[32]; snprintf(b, sizeof b, gNumWidth == 1 ? "log.%d" : "log.%02d", g); return b; }

std::string describe(const DirState &s) {
  if (s.empty()) return "{no files}";
  std::string r;
  for (auto it = s.rbegin(); it != s.rend(); ++it) {
    r += (r.empty() ? "" : " ") + genName(it->first) + "=[";
    for (size_t i = 0; i < it->second.size(); ++i) r += (i ? "," : "") + it->second[i];
    r += "]";
  }
  return r;
}

size_t bytesOf(const Lines &l) { size_t n = 0; for (auto &s : l) n += s.size() + 1; return n; }

// Reads the directory. Returns a problem text for P0/P1 violations (unknown file, partial line).
std::string observe(const std::string &dir, int gens, DirState &out, std::map<int, size_t> &sizes) {
  out.clear();
  sizes.clear();
  DIR *d = opendir(dir.c_str());
  if (!d) infra("cannot read " + dir);
  std::vector<std::string> names;
  while (dirent *de = readdir(d)) {
    std::string n = de->d_name;
    if (n != "." && n != "..") names.push_back(n);
  }
  closedir(d);
  std::sort(names.begin(), names.end());
  for (auto &n : names) {
    int g = -1;
    for (int i = 0; i < gens + 3 && g < 0; ++i) if (n == genName(i)) g = i;
    if (g < 0) return "unexpected file '" + n + "' in the log directory";
    std::string raw;
    {
      int fd = ::open((dir + "/" + n).c_str(), O_RDONLY);
      if (fd < 0) infra("cannot read " + n);
      char buf[4096];
      ssize_t k;
      while ((k = ::read(fd, buf, sizeof buf)) > 0) raw.append(buf, static_cast<size_t>(k));
      ::close(fd);
      if (k < 0) infra("cannot read " + n);
    }
    sizes[g] = raw.size();
    Lines &l = out[g];
    size_t b = 0;
    while (b < raw.size()) {
      size_t e = raw.find('\n', b);
      if (e == std::string::npos)
        return "file " + n + " ends in an incomplete line '" + raw.substr(b, 60) + "' (truncated message)";
      l.push_back(raw.substr(b, e - b));
      b = e + 1;
    }
  }
  return "";
}

// ------------------------------------------------------------------ the code under test
struct RawFormat final : celma::log::detail::IFormatStream {
  void format(std::ostream &out, const LogMsg &msg) const override { out << msg.getText(); }
};

struct Sink {
  virtual ~Sink() = default;
  virtual void write(const std::string &text) = 0;
};
template <class P> struct DirectSink final : Sink {
  std::unique_ptr<P> p;
  explicit DirectSink(P *q) : p(q) { p->open(); }
  void write(const std::string &text) override {
    LogMsg lm("log_roll.cpp", "run", 1);
    lm.setText(text);
    p->writeMessage(lm, text);
  }
};
template <class P> struct HandlerSink final : Sink {
  clf::Handler<P> h;   // the constructor opens the policy
  explicit HandlerSink(P *q) : h(q) { h.setFormatter(new RawFormat); }
  void write(const std::string &text) override {
    LogMsg lm("log_roll.cpp", "run", 1);
    lm.setText(text);
    h.handleMessage(lm);
  }
};

std::unique_ptr<Sink> makeSink(const Case &c, const clfn::Definition &def) {
  if (c.kind == COUNTED) {
    auto *p = new clf::Counted(def, c.limit, c.gens);
    if (c.viaHandler) return std::make_unique<HandlerSink<clf::Counted>>(p);
    return std::make_unique<DirectSink<clf::Counted>>(p);
  }
  auto *p = new clf::MaxSize(def, c.limit, c.gens);
  if (c.viaHandler) return std::make_unique<HandlerSink<clf::MaxSize>>(p);
  return std::make_unique<DirectSink<clf::MaxSize>>(p);
}

// ------------------------------------------------------------------ reference steps
// The two permitted successors of a directory state, built explicitly only for failure messages.
DirState rolled(const DirState &pre, int gens, bool &dropped) {
  DirState r;
  dropped = false;
  for (auto &g : pre) {
    if (g.first + 1 < gens) r[g.first + 1] = g.second;
    else dropped = true;
  }
  r[0] = Lines();
  return r;
}

bool endsWith(const Lines &l, const Lines &prefix, const std::string *text) {
  if (l.size() != prefix.size() + (text ? 1 : 0)) return false;
  if (!std::equal(prefix.begin(), prefix.end(), l.begin())) return false;
  return !text || l.back() == *text;
}

// obs == pre with `text` (if any) appended to generation 0
bool isAppended(const DirState &pre, const DirState &obs, const std::string *text) {
  static const Lines none;
  auto p0 = pre.find(0);
  auto o0 = obs.find(0);
  if (o0 == obs.end() || !endsWith(o0->second, p0 == pre.end() ? none : p0->second, text)) return false;
  if (obs.size() != pre.size() + (p0 == pre.end() ? 1 : 0)) return false;
  for (auto &g : pre) {
    if (g.first == 0) continue;
    auto o = obs.find(g.first);
    if (o == obs.end() || o->second != g.second) return false;
  }
  return true;
}

// obs == every generation of pre moved up by one (the one reaching number `gens` dropped), generation 0 = [text]
bool isRolled(const DirState &pre, const DirState &obs, int gens, const std::string *text, bool &dropped) {
  static const Lines none;
  dropped = false;
  auto o0 = obs.find(0);
  if (o0 == obs.end() || !endsWith(o0->second, none, text)) return false;
  size_t expect = 1;
  for (auto &g : pre) {
    if (g.first + 1 >= gens) { dropped = true; continue; }
    auto o = obs.find(g.first + 1);
    if (o == obs.end() || o->second != g.second) return false;
    ++expect;
  }
  return obs.size() == expect;
}

std::string limitText(const Case &c) {
  return c.kind == COUNTED ? "Counted(max_entries " + std::to_string(c.limit) + ", generations " + std::to_string(c.gens) + ")"
                           : "MaxSize(max bytes " + std::to_string(c.limit) + ", generations " + std::to_string(c.gens) + ")";
}

// per-case class counters, flushed into the statistics once per case (string keyed maps are slow per event)
enum Cls { EV_WRITE, EV_REOPEN, WRITE_APPEND, WRITE_ROLL, WRITE_BOUNDARY_EXACT, REOPEN_NONEMPTY, REOPEN_EMPTY, REOPEN_ROLL,
           ROLL_DROPPED_OLDEST, REOPEN_ROLL_SINGLE_GEN, WRITE_OVERSIZED, CLS_COUNT };
const char *const kClsNames[] = {"ev.write", "ev.reopen", "write.append", "write.roll", "write.boundary_exact", "reopen.nonempty",
                                 "reopen.empty", "reopen.roll", "roll.dropped_oldest", "reopen.roll_single_generation_drops_all",
                                 "write.oversized_message"};

std::string runCase(const Case &c) {
  auto &st = stats();
  {
    std::string de = domainError(c);
    if (!de.empty()) { std::cerr << "log_roll: case outside the domain: " << de << "\n"; _exit(2); }
  }
  st.cls(c.kind == COUNTED ? "policy.counted" : "policy.maxsize");
  st.cls(c.viaHandler ? "via.handler" : "via.policy");
  if (c.gens == 1) st.cls("gens.1");
  gNumWidth = c.gens >= 10 ? 1 : 2;
  if (c.gens >= 10) st.cls("gens.ten_or_more_with_one_digit_minimum_width");
  uint64_t cnt[CLS_COUNT] = {};
  struct Flush {
    uint64_t *cnt;
    ~Flush() { for (int i = 0; i < CLS_COUNT; ++i) if (cnt[i]) stats().cls(kClsNames[i], cnt[i]); }
  } flush{cnt};

  CaseDir dir;
  clfn::Definition def;
  {
    clfn::Creator creator(def);
    creator << (dir.path + "/log.") << gNumWidth << clfn::number;   // generation number part, no date part
  }
  for (int g = 0; g < c.gens; ++g) {
    std::string viaBuilder = clfn::Builder::filename(def, g, 0);
    if (viaBuilder != dir.path + "/" + genName(g))
      return "filename::Builder yields '" + viaBuilder + "' for generation " + std::to_string(g) + ", expected .../" + genName(g);
  }

  std::unique_ptr<Sink> sink;
  DirState pre, obs;
  std::map<int, size_t> sizes;
  Lines written;
  bool sawRoll = false, sawReopenAfterWrite = false;

  // step -1 = the initial open on the empty directory, then the events
  for (long ei = -1; ei < static_cast<long>(c.events.size()); ++ei) {
    const int ev = ei < 0 ? REOPEN : c.events[ei];
    const bool isWrite = ev != REOPEN;
    std::string text;
    if (isWrite) text = messageText(written.size(), ev == W_OVER ? (c.kind == MAXSIZE ? c.limit + 3 : 30) : c.len[ev]);
    // failure text, only built when needed
    auto fail = [&](const std::string &what, bool withStates = true) {
      std::string r = limitText(c) + " ";
      if (ei < 0) r += "initial open: ";
      else r += "event #" + std::to_string(ei) + (isWrite ? " (write " + text + "): " : " (reopen): ");
      r += what;
      if (withStates) r += " (before: " + describe(pre) + "; after: " + describe(obs) + ")";
      return r;
    };

    try {
      if (isWrite) {
        sink->write(text);
        written.push_back(text);
      } else {
        sink.reset();                 // process ends: policy/handler destroyed, file closed
        sink = makeSink(c, def);      // process starts again on the same directory
      }
    } catch (const std::exception &e) {
      return fail(std::string("threw ") + e.what() + " (directory before: " + describe(pre) + ")", false);
    }

    std::string prob = observe(dir.path, c.gens, obs, sizes);
    if (!prob.empty()) return fail(prob, false);                                                    // P0 / P1

    // P0: number of files
    if (static_cast<int>(obs.size()) > c.gens || (!obs.empty() && obs.rbegin()->first >= c.gens))
      return fail("more generation files than the configured maximum of " + std::to_string(c.gens));
    obs[0];   // a current file that does not exist (yet) is the same as an empty one: when it is created is not part of the property

    // P1 + P2: complete known lines, contiguous suffix of what was written
    {
      size_t total = 0;
      for (auto &g : obs) total += g.second.size();
      if (total > written.size()) return fail("the files hold more lines than messages were written (duplication)");
      size_t pos = written.size() - total;
      for (auto it = obs.rbegin(); it != obs.rend(); ++it)
        for (auto &line : it->second) {
          if (line != written[pos]) {
            bool known = std::find(written.begin(), written.end(), line) != written.end();
            return fail(known ? "generations read oldest to newest are not a contiguous suffix of the written sequence: " + genName(it->first) +
                                    " holds '" + line + "' where '" + written[pos] + "' is expected (loss, duplication or reordering)"
                              : "line '" + line.substr(0, 60) + "' in " + genName(it->first) + " is not a message that was written (truncated or corrupted)");
          }
          ++pos;
        }
    }

    // P3: per-file limit
    for (auto &g : obs) {
      // a message that is longer than the limit cannot fit anywhere: alone in its generation it is the only exception
      const bool loneOversized = g.second.size() == 1 && g.second[0].size() + 1 > c.limit;
      if (c.kind == MAXSIZE && sizes[g.first] > c.limit && !loneOversized)
        return fail("file " + genName(g.first) + " has " + std::to_string(sizes[g.first]) + " bytes, limit is " + std::to_string(c.limit));
      if (c.kind == COUNTED && g.second.size() > c.limit)
        return fail("file " + genName(g.first) + " holds " + std::to_string(g.second.size()) + " entries, limit is " + std::to_string(c.limit));
    }

    // P4: permitted steps
    if (ei < 0) {
      if (!(obs.size() == 1 && obs.begin()->second.empty())) return fail("after the first open on an empty directory there must be nothing but an empty (or not yet created) generation 0");
    } else {
      static const Lines none;
      auto p0 = pre.find(0);
      const Lines &gen0 = p0 == pre.end() ? none : p0->second;
      const size_t size0 = bytesOf(gen0), lines0 = gen0.size();
      bool rollOK, sameOK;
      size_t after = 0;
      if (isWrite) {
        ++cnt[EV_WRITE];
        if (ev == W_OVER && c.kind == MAXSIZE) ++cnt[WRITE_OVERSIZED];
        if (c.kind == MAXSIZE) {
          after = size0 + text.size() + 1;
          sameOK = after <= c.limit || lines0 == 0;   // the file does not exceed the limit (an empty file takes any message)
          rollOK = after >= c.limit;      // generous: reaching the limit may already count as "would exceed"
          if (after == c.limit) ++cnt[WRITE_BOUNDARY_EXACT];
        } else {
          sameOK = lines0 + 1 <= c.limit;
          rollOK = lines0 + 1 > c.limit;   // documented: writeCheck "checks if the maximum number of entries is not yet reached"
        }
      } else {
        ++cnt[EV_REOPEN];
        sameOK = true;
        if (lines0) { ++cnt[REOPEN_NONEMPTY]; sawReopenAfterWrite = true; } else ++cnt[REOPEN_EMPTY];
        if (c.kind == COUNTED) rollOK = lines0 > 0;             // documented in Counted::openCheck: usable only "i.e. it is empty"
        else rollOK = size0 + 2 >= c.limit;                     // "the file limit is reached": not even a one character message stays below it
      }
      auto why = [&]() {
        if (c.kind == COUNTED) return "generation 0 had " + std::to_string(lines0) + " of at most " + std::to_string(c.limit) + " entries";
        return "generation 0 had " + std::to_string(size0) + " bytes" +
               (isWrite ? ", with the message and its newline " + std::to_string(after) : std::string()) + ", limit " + std::to_string(c.limit);
      };
      const std::string *t = isWrite ? &text : nullptr;
      bool dropped = false;
      if (isAppended(pre, obs, t)) {
        if (!sameOK) return fail("message appended although the limit is exceeded; " + why());   // also caught by P3
        if (isWrite) ++cnt[WRITE_APPEND];
      } else if (isRolled(pre, obs, c.gens, t, dropped)) {
        if (!rollOK)
          return fail(std::string("a new generation was started although ") +
                      (isWrite ? "the message still fits" : lines0 ? "the file is not full" : "the file is empty") + "; " + why());
        sawRoll = true;
        ++cnt[isWrite ? WRITE_ROLL : REOPEN_ROLL];
        if (dropped) ++cnt[ROLL_DROPPED_OLDEST];
        if (!isWrite && c.gens == 1) ++cnt[REOPEN_ROLL_SINGLE_GEN];
      } else {
        DirState same = pre, roll = rolled(pre, c.gens, dropped);
        if (isWrite) { same[0].push_back(text); roll[0].push_back(text); }
        else same[0];
        return fail(std::string(isWrite ? "directory is neither 'message appended to generation 0' nor 'generations rolled by one, message alone in generation 0'"
                                        : "directory is neither unchanged nor 'generations rolled by one, generation 0 empty' (messages lost, moved or duplicated by a restart)") +
                    "; " + why() + "; permitted: " + (sameOK ? describe(same) : std::string("-")) + " | " + (rollOK ? describe(roll) : std::string("-")));
      }
    }
    pre.swap(obs);
  }
  try { sink.reset(); } catch (const std::exception &e) { return limitText(c) + " closing threw " + e.what(); }
  if (sawRoll && sawReopenAfterWrite) st.markNontrivial();
  return "";
}

// ------------------------------------------------------------------ (de)serialisation
std::string showCase(const Case &c) {
  Writer w;
  w.tag("roll").tag(c.kind == COUNTED ? "counted" : "maxsize").u(c.limit).u(c.gens).tag(c.viaHandler ? "handler" : "policy");
  w.u(c.len[0]).u(c.len[1]).u(c.len[2]).u(c.events.size()).nl();
  for (auto e : c.events) { char b[2] = {kEvChar[e], 0}; w.tag(b); }
  w.nl();
  return w.str();
}
Case parseCase(const std::string &t) {
  Reader r(t);
  Case c;
  if (r.tag() != "roll") throw std::runtime_error("not a log_roll case");
  std::string k = r.tag();
  if (k == "counted") c.kind = COUNTED; else if (k == "maxsize") c.kind = MAXSIZE; else throw std::runtime_error("bad policy " + k);
  c.limit = r.u();
  c.gens = static_cast<int>(r.u());
  std::string v = r.tag();
  if (v == "handler") c.viaHandler = true; else if (v == "policy") c.viaHandler = false; else throw std::runtime_error("bad access path " + v);
  for (auto &l : c.len) l = r.u();
  size_t n = r.u();
  for (size_t i = 0; i < n; ++i) {
    std::string e = r.tag();
    const char *p = e.size() == 1 ? strchr(kEvChar, e[0]) : nullptr;
    if (!p || !*p) throw std::runtime_error("bad event " + e);
    c.events.push_back(static_cast<uint8_t>(p - kEvChar));
  }
  std::string de = domainError(c);
  if (!de.empty()) throw std::runtime_error("case outside the domain: " + de);
  return c;
}

// ------------------------------------------------------------------ generation
void defaultLengths(Case &c) {
  if (c.kind == MAXSIZE) { c.len[0] = kMinLen; c.len[2] = c.limit - 2; c.len[1] = (c.len[0] + c.len[2]) / 2; }
  else { c.len[0] = 3; c.len[1] = 9; c.len[2] = 20; }
}

rc::Gen<Case> genCase() {
  return rc::gen::exec([]() {
    Case c;
    c.kind = *rc::gen::weightedElement<int>({{2, COUNTED}, {3, MAXSIZE}});
    c.gens = *rc::gen::weightedElement<int>({{4, 1}, {6, 2}, {6, 3}, {4, 4}, {1, 11}, {1, 12}});
    c.viaHandler = *rc::gen::arbitrary<bool>();
    if (c.kind == COUNTED) {
      c.limit = *rc::gen::weightedElement<size_t>({{2, 1}, {3, 2}, {3, 3}, {2, 4}, {1, 5}});
      if (c.gens >= 10) c.limit = *range<size_t>(1, 2);   // many generations: small files, so that histories reach the last one
      defaultLengths(c);
    } else {
      c.limit = c.gens >= 10 ? *range<size_t>(8, 12) : *range<size_t>(8, 48);
      const size_t hi = c.limit - 2;
      if (*rc::gen::weightedElement<int>({{1, 0}, {2, 1}}) == 0) defaultLengths(c);
      else {
        c.len[0] = *range<size_t>(kMinLen, std::min<size_t>(hi, 6));
        c.len[1] = *range<size_t>(kMinLen, hi);
        c.len[2] = *rc::gen::weightedOneOf<size_t>({{3, just<size_t>(hi)}, {1, just<size_t>(hi - 1)}, {2, range<size_t>(kMinLen, hi)}});
      }
    }
    size_t n = *rc::gen::weightedOneOf<size_t>({{3, range<size_t>(1, 12)}, {4, range<size_t>(8, 30)}, {3, range<size_t>(25, 60)}});
    if (c.gens >= 10) n = *range<size_t>(30, 60);
    // reopen density varies per case: a few histories are reopen-heavy, most write-heavy
    int reopenWeight = *rc::gen::weightedElement<int>({{3, 1}, {3, 3}, {1, 8}});
    int longWeight = *rc::gen::weightedElement<int>({{2, 1}, {2, 4}});
    int overWeight = c.kind == MAXSIZE ? *rc::gen::weightedElement<int>({{2, 0}, {2, 1}, {1, 3}}) : 0;
    for (size_t i = 0; i < n; ++i)
      c.events.push_back(static_cast<uint8_t>(*rc::gen::weightedElement<int>(
          {{6, W_SHORT}, {4, W_MEDIUM}, {static_cast<size_t>(longWeight), W_LONG}, {static_cast<size_t>(reopenWeight), REOPEN},
           {static_cast<size_t>(overWeight), W_OVER}})));
    return c;
  });
}

// exhaustive: every history of exactly `maxlen` events (the oracle runs after every event, so all shorter
// histories are covered as prefixes) x every configuration of the small range; the configurations of the
// wider range (limits / generation counts that short histories can hardly fill) get all histories of
// length maxlen-2. opts: maxlen, shard, shards
struct EnumConfig { Case c; bool small; };
std::vector<EnumConfig> enumConfigs() {
  std::vector<EnumConfig> v;
  for (int gens = 1; gens <= 4; ++gens) {
    for (size_t lim = 1; lim <= 4; ++lim) {
      Case c; c.kind = COUNTED; c.limit = lim; c.gens = gens; defaultLengths(c);
      v.push_back({c, (lim <= 3 && gens <= 3) || (lim == 1 && gens == 4)});
    }
    for (size_t lim : {size_t(8), size_t(9), size_t(10), size_t(13), size_t(16), size_t(24)}) {
      Case c; c.kind = MAXSIZE; c.limit = lim; c.gens = gens; defaultLengths(c);
      v.push_back({c, ((lim == 8 || lim == 10 || lim == 13) && gens <= 3) || (lim == 8 && gens == 4)});
    }
  }
  return v;
}

void enumerate(const std::function<bool(const Case &)> &cb) {
  const long maxlen = opt("maxlen", 7);
  const uint64_t shards = static_cast<uint64_t>(opt("shards", 1)), shard = static_cast<uint64_t>(opt("shard", 0));
  auto configs = enumConfigs();
  uint64_t idx = 0, nSmall = 0, nWide = 0;
  for (auto &ec : configs) {
    const long len = ec.small ? maxlen : std::max(1L, maxlen - 2);
    (ec.small ? nSmall : nWide) += 1;
    uint64_t histories = 1;
    for (long i = 0; i < len; ++i) histories *= 4;
    for (uint64_t h = 0; h < histories; ++h, ++idx) {
      if (idx % shards != shard) continue;
      Case c = ec.c;
      c.viaHandler = false;
      uint64_t x = h;
      for (long i = 0; i < len; ++i) { c.events.push_back(static_cast<uint8_t>(x & 3)); x >>= 2; }
      if (!cb(c)) return;
    }
  }
  // histories with over-long messages: 5 symbol alphabet, MaxSize configurations of the small range, length maxlen-2
  uint64_t nOver = 0;
  for (auto &ec : configs) {
    if (!ec.small || ec.c.kind != MAXSIZE) continue;
    ++nOver;
    const long len = std::max(1L, maxlen - 2);
    uint64_t histories = 1;
    for (long i = 0; i < len; ++i) histories *= 5;
    for (uint64_t h = 0; h < histories; ++h, ++idx) {
      if (idx % shards != shard) continue;
      Case c = ec.c;
      c.viaHandler = false;
      uint64_t x = h;
      bool hasOver = false;
      for (long i = 0; i < len; ++i) { uint8_t e = static_cast<uint8_t>(x % 5); c.events.push_back(e); if (e == W_OVER) hasOver = true; x /= 5; }
      if (!hasOver) continue;   // covered by the 4 symbol enumeration
      if (!cb(c)) return;
    }
  }
  std::ostringstream o;
  o << "{\"oversized_message_configurations\":" << nOver << ",\"small_range_configurations\":" << nSmall << ",\"small_range_history_length\":" << maxlen
    << ",\"wide_range_configurations\":" << nWide << ",\"wide_range_history_length\":" << std::max(1L, maxlen - 2) << "}";
  stats().extraJson = o.str();
}

struct Init {
  Init() {
    auto &m = addMode<Case>("hist");
    m.gen = genCase; m.run = runCase; m.show = showCase; m.parse = parseCase; m.enumerator = enumerate;
  }
} init;

}  // namespace

int main(int argc, char **argv) { return harnessMain(argc, argv); }
