// C11 executor instantiations for capacity group D (see FS_CAPS_D in fs_common.hpp).
#define FS_NO_RAPIDCHECK
#include "fs_exec.hpp"

namespace fsx {
std::string runModelD(const Case &c) {
  switch (c.cap) {
#define X(n) case n: { Exec<n, true> e(c); return e.run(); }
    FS_CAPS_D(X)
#undef X
    default: break;
  }
  return "capacity is not instantiated";
}
}  // namespace fsx
