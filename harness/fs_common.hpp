// Shared between the C10 (fs_safety) and C11 (fs_model) harnesses and the libFuzzer target:
// the operation vocabulary over celma::common::FixedString<L>, the plain-data case, its text form,
// the argument roles (which decide the in-domain range of every argument) and the generators.
//
// Nothing in this header includes Celma: the heavy, templated executor lives in fs_exec.hpp and
// is instantiated per capacity group in separate translation units (fs_safety_*.cpp, fs_model_*.cpp).
#pragma once

#ifndef FS_NO_RAPIDCHECK
#include "common/verif.hpp"
#else
#include <cstdint>
#include <cstring>
#include <string>
#include <vector>
#include <stdexcept>
#endif

#include <climits>

namespace fsx {

// ---------------------------------------------------------------------------------- capacities
// every capacity that is template-instantiated; the group letter says which TU owns it
#define FS_CAPS_A(X) X(1) X(2) X(3) X(4)
#define FS_CAPS_B(X) X(5) X(7) X(8) X(16)
#define FS_CAPS_C(X) X(31) X(255) X(256)
#define FS_CAPS_D(X) X(1000) X(65535) X(65536)
#define FS_CAPS_ALL(X) FS_CAPS_A(X) FS_CAPS_B(X) FS_CAPS_C(X) FS_CAPS_D(X)

inline const std::vector<uint64_t> &allCaps() {
  static const std::vector<uint64_t> v = {
#define X(n) n,
      FS_CAPS_ALL(X)
#undef X
  };
  return v;
}

// capacities of the "other" FixedString<S> used as source of the cross-capacity template overloads
constexpr size_t kSrcCap0 = 4, kSrcCap1 = 300, kSrcCap2 = 70000;

// ---------------------------------------------------------------------------------- numbers
// A numeric argument is stored symbolically: base + offset (wrapping 64 bit arithmetic), resolved
// against the state at the time the operation runs. That makes "length()+1", "remaining capacity",
// "npos-3" expressible independent of what earlier operations did, and keeps witnesses readable.
//   z zero, l current length, c capacity L, r remaining capacity L-length, s length of the source
//   text of this operation, n SIZE_MAX (npos)
struct Num {
  char base = 'z';
  int64_t off = 0;
};
inline Num num(char b, int64_t o = 0) { Num n; n.base = b; n.off = o; return n; }

// ---------------------------------------------------------------------------------- argument roles
enum Role {
  R_NONE,
  R_POS,      // position in this string; in-domain: 0..length
  R_POSLT,    // position of an existing character; in-domain: 0..length-1 (operation skipped when empty)
  R_IDX,      // at(): < length -> value, > length -> documented throw, == length kept out of C11
  R_CNT,      // count relative to this string, any value is in-domain (clamped by the operation)
  R_ICNT,     // number of characters to create; in-domain up to 2L+600 (std::string would throw length_error beyond max_size)
  R_LAST,     // end of an iterator range in this string; in-domain: first+1..length (>= length means end())
  R_SPOS,     // position in the source; in-domain 0..source length
  R_SPOSLT,   // position of an existing source character
  R_SLAST,    // end of an iterator range in the source; in-domain: first+1..source length
  R_SCNT,     // count in the source, any value in-domain
  R_SCNTLE,   // count of characters behind a const char*: never more than the buffer holds (both checks)
  R_RPOSLE,   // start of a backward search: 0..length or npos
  R_RPOSLT,   // start of a backward search: 0..length-1 or npos
  R_INT,      // small integer (sprintf)
};

// source text flags
enum : int {
  S_USED = 1,       // the operation has a source text
  S_NONEMPTY = 2,   // C11 only: search pattern / character set must not be empty
  S_NONUL = 4,      // passed as C string: no embedded NUL
  S_FS = 8,         // text initialises the FixedString source (src 0,1,2,5)
};
// source object selection (bit = allowed value of Op::src)
enum : int { SRC_FS4 = 0, SRC_FS300 = 1, SRC_FS70000 = 2, SRC_PEER = 3, SRC_SELF = 4, SRC_TEMPL = 5 };
constexpr int M_ALLFS = 0x3f, M_SAMEL = (1 << SRC_PEER) | (1 << SRC_SELF) | (1 << SRC_TEMPL),
              M_OTHERCAP = (1 << SRC_FS4) | (1 << SRC_FS300) | (1 << SRC_FS70000),
              M_NOTSELF = M_ALLFS & ~(1 << SRC_SELF);

// name, role a, b, c, d, source text flags, uses ch, source object mask, mutator, number of variants (Op::v)
#define FS_OPS(X)                                                                                     \
  X(ctor_default, R_NONE, R_NONE, R_NONE, R_NONE, 0, 0, 0, 1, 1)                                      \
  X(ctor_cstr, R_NONE, R_NONE, R_NONE, R_NONE, S_USED | S_NONUL, 0, 0, 1, 1)                          \
  X(ctor_str, R_NONE, R_NONE, R_NONE, R_NONE, S_USED, 0, 0, 1, 1)                                     \
  X(ctor_copy, R_NONE, R_NONE, R_NONE, R_NONE, S_USED | S_FS, 0, (1 << SRC_PEER) | (1 << SRC_TEMPL), 1, 1) \
  X(ctor_fs, R_NONE, R_NONE, R_NONE, R_NONE, S_USED | S_FS, 0, M_OTHERCAP, 1, 1)                      \
  X(ctor_move, R_NONE, R_NONE, R_NONE, R_NONE, S_USED | S_FS, 0, (1 << SRC_PEER) | (1 << SRC_TEMPL), 1, 1) \
  X(assign_cstr, R_NONE, R_NONE, R_NONE, R_NONE, S_USED | S_NONUL, 0, 0, 1, 1)                        \
  X(assign_str, R_NONE, R_NONE, R_NONE, R_NONE, S_USED, 0, 0, 1, 1)                                   \
  X(assign_fs, R_NONE, R_NONE, R_NONE, R_NONE, S_USED | S_FS, 0, M_ALLFS, 1, 1)                       \
  X(opassign_cstr, R_NONE, R_NONE, R_NONE, R_NONE, S_USED | S_NONUL, 0, 0, 1, 1)                      \
  X(opassign_str, R_NONE, R_NONE, R_NONE, R_NONE, S_USED, 0, 0, 1, 1)                                 \
  X(opassign_fs, R_NONE, R_NONE, R_NONE, R_NONE, S_USED | S_FS, 0, M_ALLFS, 1, 1)                     \
  X(clear, R_NONE, R_NONE, R_NONE, R_NONE, 0, 0, 0, 1, 1)                                             \
  X(at, R_IDX, R_NONE, R_NONE, R_NONE, 0, 0, 0, 0, 2)                                                 \
  X(index, R_POS, R_NONE, R_NONE, R_NONE, 0, 0, 0, 0, 2)                                              \
  X(front_back, R_NONE, R_NONE, R_NONE, R_NONE, 0, 0, 0, 0, 1)                                        \
  X(write_ref, R_POSLT, R_NONE, R_NONE, R_NONE, 0, 1, 0, 1, 7)                                        \
  X(iter_fwd, R_NONE, R_NONE, R_NONE, R_NONE, 0, 0, 0, 0, 4)                                          \
  X(iter_rev, R_NONE, R_NONE, R_NONE, R_NONE, 0, 0, 0, 0, 3)                                          \
  X(iter_random, R_POS, R_POS, R_NONE, R_NONE, 0, 0, 0, 0, 1)                                         \
  X(iter_walk, R_CNT, R_CNT, R_CNT, R_CNT, 0, 0, 0, 0, 2048)                                           \
  X(insert_cnt_ch, R_POS, R_ICNT, R_NONE, R_NONE, 0, 1, 0, 1, 1)                                      \
  X(insert_cstr_cnt, R_POS, R_SCNTLE, R_NONE, R_NONE, S_USED | S_NONUL, 0, 0, 1, 1)                   \
  X(insert_cstr, R_POS, R_NONE, R_NONE, R_NONE, S_USED | S_NONUL, 0, 0, 1, 1)                         \
  X(insert_str, R_POS, R_NONE, R_NONE, R_NONE, S_USED, 0, 0, 1, 1)                                    \
  X(insert_str_sub, R_POS, R_SPOS, R_SCNT, R_NONE, S_USED, 0, 0, 1, 2)                                \
  X(insert_fs, R_POS, R_NONE, R_NONE, R_NONE, S_USED | S_FS, 0, M_ALLFS, 1, 1)                        \
  X(insert_fs_sub, R_POS, R_SPOS, R_SCNT, R_NONE, S_USED | S_FS, 0, M_ALLFS, 1, 2)                    \
  X(insert_it_ch, R_POSLT, R_NONE, R_NONE, R_NONE, 0, 1, 0, 1, 1)                                     \
  X(insert_it_cnt_ch, R_POSLT, R_ICNT, R_NONE, R_NONE, 0, 1, 0, 1, 1)                                 \
  X(insert_it_ilist, R_POSLT, R_NONE, R_NONE, R_NONE, 0, 0, 0, 1, 8)                                  \
  X(erase, R_POS, R_CNT, R_NONE, R_NONE, 0, 0, 0, 1, 3)                                               \
  X(erase_it, R_POSLT, R_NONE, R_NONE, R_NONE, 0, 0, 0, 1, 1)                                         \
  X(erase_range, R_POSLT, R_LAST, R_NONE, R_NONE, 0, 0, 0, 1, 1)                                      \
  X(push_back, R_NONE, R_NONE, R_NONE, R_NONE, 0, 1, 0, 1, 1)                                         \
  X(pop_back, R_NONE, R_NONE, R_NONE, R_NONE, 0, 0, 0, 1, 1)                                          \
  X(append_cnt_ch, R_ICNT, R_NONE, R_NONE, R_NONE, 0, 1, 0, 1, 1)                                     \
  X(append_str, R_NONE, R_NONE, R_NONE, R_NONE, S_USED, 0, 0, 1, 1)                                   \
  X(append_fs, R_NONE, R_NONE, R_NONE, R_NONE, S_USED | S_FS, 0, M_ALLFS, 1, 1)                       \
  X(append_str_sub, R_SPOS, R_SCNT, R_NONE, R_NONE, S_USED, 0, 0, 1, 2)                               \
  X(append_fs_sub, R_SPOS, R_SCNT, R_NONE, R_NONE, S_USED | S_FS, 0, M_ALLFS, 1, 2)                   \
  X(append_cstr_cnt, R_SCNTLE, R_NONE, R_NONE, R_NONE, S_USED | S_NONUL, 0, 0, 1, 1)                  \
  X(append_cstr, R_NONE, R_NONE, R_NONE, R_NONE, S_USED | S_NONUL, 0, 0, 1, 1)                        \
  X(append_range, R_SPOSLT, R_SLAST, R_NONE, R_NONE, S_USED | S_FS, 0, M_SAMEL, 1, 1)                 \
  X(sprintf, R_INT, R_NONE, R_NONE, R_NONE, S_USED | S_NONUL, 1, 0, 1, 8)                             \
  X(plus_fs, R_NONE, R_NONE, R_NONE, R_NONE, S_USED | S_FS, 0, M_ALLFS, 1, 1)                         \
  X(plus_str, R_NONE, R_NONE, R_NONE, R_NONE, S_USED, 0, 0, 1, 1)                                     \
  X(plus_cstr, R_NONE, R_NONE, R_NONE, R_NONE, S_USED | S_NONUL, 0, 0, 1, 1)                          \
  X(plus_ch, R_NONE, R_NONE, R_NONE, R_NONE, 0, 1, 0, 1, 1)                                           \
  X(cmp_fs, R_NONE, R_NONE, R_NONE, R_NONE, S_USED | S_FS, 0, M_ALLFS, 0, 1)                          \
  X(cmp_str, R_NONE, R_NONE, R_NONE, R_NONE, S_USED, 0, 0, 0, 1)                                      \
  X(cmp_cstr, R_NONE, R_NONE, R_NONE, R_NONE, S_USED | S_NONUL, 0, 0, 0, 1)                           \
  X(cmp_pc_fs, R_POS, R_CNT, R_NONE, R_NONE, S_USED | S_FS, 0, M_ALLFS, 0, 1)                         \
  X(cmp_pc_str, R_POS, R_CNT, R_NONE, R_NONE, S_USED, 0, 0, 0, 1)                                     \
  X(cmp_pc_cstr, R_POS, R_CNT, R_NONE, R_NONE, S_USED | S_NONUL, 0, 0, 0, 1)                          \
  X(cmp_pcpc_fs, R_POS, R_CNT, R_SPOS, R_SCNT, S_USED | S_FS, 0, M_ALLFS, 0, 1)                       \
  X(cmp_pcpc_str, R_POS, R_CNT, R_SPOS, R_SCNT, S_USED, 0, 0, 0, 1)                                   \
  X(cmp_pc_cstr_c, R_POS, R_CNT, R_SCNTLE, R_NONE, S_USED | S_NONUL, 0, 0, 0, 1)                      \
  X(starts_fs, R_NONE, R_NONE, R_NONE, R_NONE, S_USED | S_FS, 0, M_ALLFS, 0, 1)                       \
  X(starts_str, R_NONE, R_NONE, R_NONE, R_NONE, S_USED, 0, 0, 0, 1)                                   \
  X(starts_cstr, R_NONE, R_NONE, R_NONE, R_NONE, S_USED | S_NONUL, 0, 0, 0, 1)                        \
  X(starts_ch, R_NONE, R_NONE, R_NONE, R_NONE, 0, 1, 0, 0, 1)                                         \
  X(ends_fs, R_NONE, R_NONE, R_NONE, R_NONE, S_USED | S_FS, 0, M_ALLFS, 0, 1)                         \
  X(ends_str, R_NONE, R_NONE, R_NONE, R_NONE, S_USED, 0, 0, 0, 1)                                     \
  X(ends_cstr, R_NONE, R_NONE, R_NONE, R_NONE, S_USED | S_NONUL, 0, 0, 0, 1)                          \
  X(ends_ch, R_NONE, R_NONE, R_NONE, R_NONE, 0, 1, 0, 0, 1)                                           \
  X(contains_fs, R_NONE, R_NONE, R_NONE, R_NONE, S_USED | S_FS | S_NONEMPTY, 0, M_ALLFS, 0, 1)        \
  X(contains_str, R_NONE, R_NONE, R_NONE, R_NONE, S_USED | S_NONEMPTY, 0, 0, 0, 1)                    \
  X(contains_cstr, R_NONE, R_NONE, R_NONE, R_NONE, S_USED | S_NONUL | S_NONEMPTY, 0, 0, 0, 1)         \
  X(contains_ch, R_NONE, R_NONE, R_NONE, R_NONE, 0, 1, 0, 0, 1)                                       \
  X(repl_fs, R_POS, R_CNT, R_NONE, R_NONE, S_USED | S_FS, 0, M_ALLFS, 1, 1)                           \
  X(repl_str, R_POS, R_CNT, R_NONE, R_NONE, S_USED, 0, 0, 1, 1)                                       \
  X(repl_fs_sub, R_POS, R_CNT, R_SPOS, R_SCNT, S_USED | S_FS, 0, M_ALLFS, 1, 2)                       \
  X(repl_str_sub, R_POS, R_CNT, R_SPOS, R_SCNT, S_USED, 0, 0, 1, 2)                                   \
  X(repl_it_it, R_POSLT, R_LAST, R_SPOSLT, R_SLAST, S_USED | S_FS, 0, M_SAMEL, 1, 1)                  \
  X(repl_it_strit, R_POSLT, R_LAST, R_SPOSLT, R_SLAST, S_USED, 0, 0, 1, 1)                            \
  X(repl_it_cstr_cnt, R_POSLT, R_LAST, R_SCNTLE, R_NONE, S_USED | S_NONUL | S_NONEMPTY, 0, 0, 1, 1)   \
  X(repl_cstr, R_POS, R_CNT, R_NONE, R_NONE, S_USED | S_NONUL, 0, 0, 1, 1)                            \
  X(repl_cstr_cnt, R_POS, R_CNT, R_SCNTLE, R_NONE, S_USED | S_NONUL, 0, 0, 1, 1)                      \
  X(repl_it_cstr, R_POSLT, R_LAST, R_NONE, R_NONE, S_USED | S_NONUL | S_NONEMPTY, 0, 0, 1, 1)         \
  X(repl_cnt_ch, R_POS, R_CNT, R_ICNT, R_NONE, 0, 1, 0, 1, 1)                                         \
  X(repl_it_cnt_ch, R_POSLT, R_LAST, R_ICNT, R_NONE, 0, 1, 0, 1, 1)                                   \
  X(repl_it_ilist, R_POSLT, R_LAST, R_NONE, R_NONE, 0, 0, 0, 1, 8)                                    \
  X(substr, R_POS, R_CNT, R_NONE, R_NONE, 0, 0, 0, 0, 2)                                              \
  X(copy, R_CNT, R_POS, R_NONE, R_NONE, 0, 0, 0, 0, 3)                                                \
  X(swap, R_NONE, R_NONE, R_NONE, R_NONE, 0, 0, (1 << SRC_PEER) | (1 << SRC_SELF), 1, 1)              \
  X(find_fs, R_POS, R_NONE, R_NONE, R_NONE, S_USED | S_FS | S_NONEMPTY, 0, M_SAMEL, 0, 2)             \
  X(find_str, R_POS, R_NONE, R_NONE, R_NONE, S_USED | S_NONEMPTY, 0, 0, 0, 2)                         \
  X(find_cstr_cnt, R_POS, R_SCNTLE, R_NONE, R_NONE, S_USED | S_NONUL | S_NONEMPTY, 0, 0, 0, 1)        \
  X(find_cstr, R_POS, R_NONE, R_NONE, R_NONE, S_USED | S_NONUL | S_NONEMPTY, 0, 0, 0, 2)              \
  X(find_ch, R_POS, R_NONE, R_NONE, R_NONE, 0, 1, 0, 0, 2)                                            \
  X(rfind_fs, R_RPOSLE, R_NONE, R_NONE, R_NONE, S_USED | S_FS | S_NONEMPTY, 0, M_SAMEL, 0, 2)         \
  X(rfind_str, R_RPOSLE, R_NONE, R_NONE, R_NONE, S_USED | S_NONEMPTY, 0, 0, 0, 2)                     \
  X(rfind_cstr_cnt, R_RPOSLE, R_SCNTLE, R_NONE, R_NONE, S_USED | S_NONUL | S_NONEMPTY, 0, 0, 0, 1)    \
  X(rfind_cstr, R_RPOSLE, R_NONE, R_NONE, R_NONE, S_USED | S_NONUL | S_NONEMPTY, 0, 0, 0, 2)          \
  X(rfind_ch, R_RPOSLT, R_NONE, R_NONE, R_NONE, 0, 1, 0, 0, 2)                                        \
  X(ffo_fs, R_POS, R_NONE, R_NONE, R_NONE, S_USED | S_FS | S_NONEMPTY, 0, M_SAMEL, 0, 2)              \
  X(ffo_str, R_POS, R_NONE, R_NONE, R_NONE, S_USED | S_NONEMPTY | S_NONUL, 0, 0, 0, 2)                \
  X(ffo_cstr_cnt, R_POS, R_SCNTLE, R_NONE, R_NONE, S_USED | S_NONEMPTY, 0, 0, 0, 1)                   \
  X(ffo_cstr, R_POS, R_NONE, R_NONE, R_NONE, S_USED | S_NONUL | S_NONEMPTY, 0, 0, 0, 2)               \
  X(ffo_ch, R_POS, R_NONE, R_NONE, R_NONE, 0, 1, 0, 0, 2)                                             \
  X(ffno_fs, R_POS, R_NONE, R_NONE, R_NONE, S_USED | S_FS | S_NONEMPTY, 0, M_SAMEL, 0, 2)             \
  X(ffno_str, R_POS, R_NONE, R_NONE, R_NONE, S_USED | S_NONEMPTY | S_NONUL, 0, 0, 0, 2)               \
  X(ffno_cstr_cnt, R_POS, R_SCNTLE, R_NONE, R_NONE, S_USED | S_NONEMPTY, 0, 0, 0, 1)                  \
  X(ffno_cstr, R_POS, R_NONE, R_NONE, R_NONE, S_USED | S_NONUL | S_NONEMPTY, 0, 0, 0, 2)              \
  X(ffno_ch, R_POS, R_NONE, R_NONE, R_NONE, 0, 1, 0, 0, 2)                                            \
  X(flo_fs, R_RPOSLT, R_NONE, R_NONE, R_NONE, S_USED | S_FS | S_NONEMPTY, 0, M_SAMEL, 0, 2)           \
  X(flo_str, R_RPOSLT, R_NONE, R_NONE, R_NONE, S_USED | S_NONEMPTY | S_NONUL, 0, 0, 0, 2)             \
  X(flo_cstr_cnt, R_POSLT, R_SCNTLE, R_NONE, R_NONE, S_USED | S_NONEMPTY, 0, 0, 0, 1)                 \
  X(flo_cstr, R_RPOSLT, R_NONE, R_NONE, R_NONE, S_USED | S_NONUL | S_NONEMPTY, 0, 0, 0, 2)            \
  X(flo_ch, R_RPOSLT, R_NONE, R_NONE, R_NONE, 0, 1, 0, 0, 2)                                          \
  X(flno_fs, R_RPOSLT, R_NONE, R_NONE, R_NONE, S_USED | S_FS | S_NONEMPTY, 0, M_SAMEL, 0, 2)          \
  X(flno_str, R_RPOSLT, R_NONE, R_NONE, R_NONE, S_USED | S_NONEMPTY | S_NONUL, 0, 0, 0, 2)            \
  X(flno_cstr_cnt, R_POSLT, R_SCNTLE, R_NONE, R_NONE, S_USED | S_NONEMPTY, 0, 0, 0, 1)                \
  X(flno_cstr, R_RPOSLT, R_NONE, R_NONE, R_NONE, S_USED | S_NONUL | S_NONEMPTY, 0, 0, 0, 2)           \
  X(flno_ch, R_RPOSLT, R_NONE, R_NONE, R_NONE, 0, 1, 0, 0, 2)                                         \
  X(eq_ne, R_NONE, R_NONE, R_NONE, R_NONE, S_USED | S_FS, 0, M_ALLFS, 0, 1)                           \
  X(stream, R_NONE, R_NONE, R_NONE, R_NONE, 0, 0, 0, 0, 1)                                            \
  X(peer_assign, R_NONE, R_NONE, R_NONE, R_NONE, S_USED, 0, 0, 1, 1)

enum OpKind {
#define X(name, a, b, c, d, sf, ch, sm, mut, nv) K_##name,
  FS_OPS(X)
#undef X
      K_COUNT
};

struct OpInfo {
  const char *name;
  Role r[4];
  int strFlags;
  bool usesCh;
  int srcMask;
  bool mutator;
  int variants;
};
inline const OpInfo &opInfo(int k) {
  static const OpInfo t[] = {
#define X(name, a, b, c, d, sf, ch, sm, mut, nv) {#name, {a, b, c, d}, sf, ch != 0, sm, mut != 0, nv},
      FS_OPS(X)
#undef X
  };
  return t[k];
}
inline int opByName(const std::string &n) {
  for (int k = 0; k < K_COUNT; ++k)
    if (n == opInfo(k).name) return k;
  return -1;
}

// ---------------------------------------------------------------------------------- case
struct Op {
  int kind = 0;
  Num a, b, c, d;   // roles per opInfo(kind).r
  Num sl;           // length of the source text (text = pattern cycled to that length)
  std::string s;    // pattern of the source text ("" -> 'x')
  int ch = 'x';
  int v = 0;        // variant: default arguments / const overload / access path / format ...
  int src = 0;      // source object, see SRC_*
};
struct Case {
  uint64_t cap = 8;
  int place = 0;          // 0: exact-size heap object (ASan red zones), 1: inside a canary struct
  std::string init;       // pattern of the initial content
  Num il;                 // its length (before truncation by the constructor)
  std::string pinit;      // same for the peer object (second FixedString<L>: swap partner, same-capacity source)
  Num pl;
  std::vector<Op> ops;
};

// length of a source text: an offset below zero saturates at 0, nothing is longer than 80000 characters
inline uint64_t textLength(const Num &n, uint64_t len, uint64_t cap) {
  uint64_t base = n.base == 'l' ? len : n.base == 'c' ? cap : n.base == 'r' ? (cap >= len ? cap - len : 0) : 0;
  if (n.base == 'n' || n.base == 's') base = 0;
  if (n.off < 0 && static_cast<uint64_t>(-n.off) > base) return 0;
  uint64_t v = base + static_cast<uint64_t>(n.off);
  return v > 80000 ? 80000 : v;
}

inline std::string cycle(const std::string &pattern, uint64_t len) {
  std::string r;
  if (len > 80000) len = 80000;
  r.resize(len);
  if (pattern.empty()) { std::fill(r.begin(), r.end(), 'x'); return r; }
  for (size_t i = 0; i < len; ++i) r[i] = pattern[i % pattern.size()];
  return r;
}

inline uint64_t resolve(const Num &n, uint64_t len, uint64_t cap, uint64_t srcLen) {
  uint64_t b = 0;
  switch (n.base) {
    case 'z': b = 0; break;
    case 'l': b = len; break;
    case 'c': b = cap; break;
    case 'r': b = cap >= len ? cap - len : 0; break;
    case 's': b = srcLen; break;
    case 'n': b = UINT64_MAX; break;
    default: throw std::runtime_error("bad number base");
  }
  return b + static_cast<uint64_t>(n.off);
}

// fixed menu of initializer lists (a std::initializer_list cannot be built at run time)
inline const char *ilistText(int v) {
  static const char *const t[] = {"", "q", "ab", "abc", "abcde", "abcdefghi", "abcdefghijklmnopq",
                                  "abcdefghijklmnopqrstuvwxyzABCDEFGHIJKLMN"};
  return t[v & 7];
}
// sprintf formats: all take (const char*, int, int) in a fixed order decided per format
inline const char *sprintfFormat(int v) {
  // the last one fails inside vsnprintf (a wide character that the C locale cannot convert): the error return must leave a
  // well-formed string behind
  static const char *const t[] = {"%s", "%d", "[%s|%d]", "%5d%s", "%-10s|", "%x%c", "%%%s%%", "ab%lcde"};
  return t[v % 8];
}

#ifndef FS_NO_RAPIDCHECK
// ---------------------------------------------------------------------------------- text form
inline void showNum(verif::Writer &w, const Num &n) {
  std::string t(1, n.base);
  if (n.off >= 0) t += '+';
  t += std::to_string(n.off);
  w.tag(t.c_str());
}
inline Num parseNum(verif::Reader &r) {
  std::string t = r.tag();
  if (t.size() < 2) throw std::runtime_error("bad number " + t);
  Num n;
  n.base = t[0];
  n.off = std::stoll(t.substr(1));
  return n;
}
inline std::string showCase(const Case &c) {
  verif::Writer w;
  w.tag("fs").u(c.cap).u(c.place).s(c.init);
  showNum(w, c.il);
  w.s(c.pinit);
  showNum(w, c.pl);
  w.u(c.ops.size()).nl();
  for (auto &o : c.ops) {
    w.tag(opInfo(o.kind).name);
    showNum(w, o.a); showNum(w, o.b); showNum(w, o.c); showNum(w, o.d);
    w.s(o.s);
    showNum(w, o.sl);
    w.u(o.ch).u(o.v).u(o.src).nl();
  }
  return w.str();
}
inline Case parseCase(const std::string &t) {
  verif::Reader r(t);
  Case c;
  if (r.tag() != "fs") throw std::runtime_error("not a FixedString case");
  c.cap = r.u(); c.place = static_cast<int>(r.u()); c.init = r.s(); c.il = parseNum(r);
  c.pinit = r.s(); c.pl = parseNum(r);
  size_t n = r.u();
  for (size_t i = 0; i < n; ++i) {
    Op o;
    std::string k = r.tag();
    o.kind = opByName(k);
    if (o.kind < 0) throw std::runtime_error("unknown operation " + k);
    o.a = parseNum(r); o.b = parseNum(r); o.c = parseNum(r); o.d = parseNum(r);
    o.s = r.s(); o.sl = parseNum(r);
    o.ch = static_cast<int>(r.u()); o.v = static_cast<int>(r.u()); o.src = static_cast<int>(r.u());
    c.ops.push_back(o);
  }
  return c;
}
#endif

// ---------------------------------------------------------------------------------- run entry points
// defined in the capacity-group translation units; "" = held, else failure message
std::string runSafetyA(const Case &); std::string runSafetyB(const Case &);
std::string runSafetyC(const Case &); std::string runSafetyD(const Case &);
std::string runModelA(const Case &); std::string runModelB(const Case &);
std::string runModelC(const Case &); std::string runModelD(const Case &);

inline char groupOf(uint64_t cap) {
#define X(n) if (cap == n) return 'A';
  FS_CAPS_A(X)
#undef X
#define X(n) if (cap == n) return 'B';
  FS_CAPS_B(X)
#undef X
#define X(n) if (cap == n) return 'C';
  FS_CAPS_C(X)
#undef X
#define X(n) if (cap == n) return 'D';
  FS_CAPS_D(X)
#undef X
  return '?';
}

// statistics sink (so that the executor does not depend on verif.hpp: the fuzz target has none)
struct Sink {
  virtual ~Sink() = default;
  virtual void cls(const char *name) = 0;
  virtual void cls(const std::string &name) = 0;
  virtual void nontrivial() = 0;
  virtual bool kf(const char *id) = 0;     // open known finding switched on -> skip + excl
  virtual void excl(const char *id) = 0;
};
Sink &sink();   // defined by the binary (harness: forwards to verif::stats(); fuzz target: no-op)

}  // namespace fsx
