// C11 executor instantiations for capacity group A (see FS_CAPS_A in fs_common.hpp).
#define FS_NO_RAPIDCHECK
#include "fs_exec.hpp"

namespace fsx {
std::string runModelA(const Case &c) {
  switch (c.cap) {
#define X(n) case n: { Exec<n, true> e(c); return e.run(); }
    FS_CAPS_A(X)
#undef X
    default: break;
  }
  return "capacity is not instantiated";
}
}  // namespace fsx
