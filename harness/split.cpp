// C07 (a) - splitting a command line string inverts quoting.
#include "common/verif.hpp"

#include "celma/appl/arg_string_2_array.hpp"

using namespace verif;

namespace {

// a word is written as a sequence of segments, each in one quoting style
enum Style { BACKSLASH, SINGLE, DOUBLE, BACKSLASH_ALL };
struct Segment { std::string text; int style = 0; };
struct Case {
  std::vector<std::vector<Segment>> words;
  std::vector<int> blanks;   // blanks before word i (>= 1 for i > 0, >= 0 for i == 0)
  int trailing = 0;
  int ctor = 0;              // 0: (string, progname)  1: (string, nullptr)  2: (string) - no program name
};

std::string quoteSegment(const Segment &s) {
  std::string r;
  switch (s.style) {
    case BACKSLASH:
      for (char c : s.text) { if (c == ' ' || c == '\'' || c == '"' || c == '\\') r += '\\'; r += c; }
      return r;
    case BACKSLASH_ALL:
      for (char c : s.text) { r += '\\'; r += c; }
      return r;
    case SINGLE: case DOUBLE: {
      char q = s.style == SINGLE ? '\'' : '"';
      r += q;
      for (char c : s.text) { if (c == q || c == '\\') r += '\\'; r += c; }
      r += q;
      return r;
    }
  }
  return r;
}

std::string runCase(const Case &c) {
  auto &st = stats();
  std::string line;
  std::vector<std::string> expect;
  bool special = false;
  for (size_t i = 0; i < c.words.size(); ++i) {
    line.append(static_cast<size_t>(c.blanks[i]), ' ');
    std::string w;
    for (auto &seg : c.words[i]) { line += quoteSegment(seg); w += seg.text; st.cls(std::string("style.") + (seg.style == BACKSLASH ? "backslash" : seg.style == SINGLE ? "single" : seg.style == DOUBLE ? "double" : "backslash_all")); }
    if (w.find_first_of(" '\"\\") != std::string::npos) special = true;
    if (c.words[i].size() > 1) st.cls("mixed_segments");
    expect.push_back(w);
  }
  line.append(static_cast<size_t>(c.trailing), ' ');
  auto check = [&](const celma::appl::ArgString2Array &a, int offset, const char *prog) -> std::string {
    if (a.mArgC != static_cast<int>(expect.size()) + offset)
      return "argc is " + std::to_string(a.mArgC) + ", expected " + std::to_string(expect.size() + offset) + " for line {" + line + "}";
    if (a.mpArgV[a.mArgC] != nullptr) return "argv[argc] is not nullptr";
    if (offset == 1 && std::string(a.mpArgV[0]) != prog) return "argv[0] is not the program name";
    for (size_t i = 0; i < expect.size(); ++i)
      if (expect[i] != a.mpArgV[i + offset])
        return "word " + std::to_string(i) + " is {" + a.mpArgV[i + offset] + "}, expected {" + expect[i] + "} for line {" + line + "}";
    return "";
  };
  std::string m;
  if (c.ctor == 0) { auto a = celma::appl::make_arg_array(line, "my prog"); m = check(a, 1, "my prog"); }
  else if (c.ctor == 1) { auto a = celma::appl::make_arg_array(line, nullptr); m = check(a, 1, "programname"); }
  else { auto a = celma::appl::make_arg_array(line); m = check(a, 0, ""); }
  if (special) st.markNontrivial();
  return m;
}

std::string showCase(const Case &c) {
  Writer w;
  w.tag("split").u(c.ctor).u(c.trailing).u(c.words.size()).nl();
  for (size_t i = 0; i < c.words.size(); ++i) {
    w.tag("word").u(c.blanks[i]).u(c.words[i].size());
    for (auto &s : c.words[i]) w.u(s.style).s(s.text);
    w.nl();
  }
  return w.str();
}
Case parseCase(const std::string &t) {
  Reader r(t);
  Case c;
  r.tag(); c.ctor = static_cast<int>(r.u()); c.trailing = static_cast<int>(r.u());
  size_t n = r.u();
  for (size_t i = 0; i < n; ++i) {
    r.tag(); c.blanks.push_back(static_cast<int>(r.u()));
    size_t k = r.u();
    std::vector<Segment> segs;
    for (size_t j = 0; j < k; ++j) { Segment s; s.style = static_cast<int>(r.u()); s.text = r.s(); segs.push_back(s); }
    c.words.push_back(segs);
  }
  return c;
}

rc::Gen<Case> genCase() {
  return rc::gen::exec([]() {
    Case c;
    c.ctor = *range<int>(0, 2);
    c.trailing = *range<int>(0, 2);
    size_t n = *range<size_t>(1, 8);
    const std::string specials = " '\"\\";
    for (size_t i = 0; i < n; ++i) {
      c.blanks.push_back(i == 0 ? *range<int>(0, 2) : *range<int>(1, 3));
      size_t nseg = *rc::gen::weightedOneOf<size_t>({{5, just<size_t>(1)}, {2, just<size_t>(2)}, {1, just<size_t>(3)}});
      std::vector<Segment> segs;
      for (size_t s = 0; s < nseg; ++s) {
        Segment seg;
        seg.style = *range<int>(0, 3);
        size_t len = *range<size_t>(1, 12 / nseg + 1);
        for (size_t k = 0; k < len; ++k) {
          if (*range<int>(0, 3) == 0) seg.text += specials[*range<size_t>(0, 3)];
          else seg.text += static_cast<char>(*range<int>(33, 126));
        }
        segs.push_back(seg);
      }
      c.words.push_back(segs);
    }
    return c;
  });
}

// exhaustive: every word of length 1..3 over the alphabet {a, blank, ', ", backslash} in each of the 4 styles,
// alone and between two plain words
void enumerate(const std::function<bool(const Case &)> &cb) {
  const std::string alpha = "a '\"\\";
  for (int len = 1; len <= 3; ++len) {
    int combos = 1;
    for (int i = 0; i < len; ++i) combos *= 5;
    for (int w = 0; w < combos; ++w) {
      std::string word;
      int x = w;
      for (int i = 0; i < len; ++i) { word += alpha[x % 5]; x /= 5; }
      for (int style = 0; style < 4; ++style)
        for (int ctx = 0; ctx < 2; ++ctx)
          for (int ctor = 0; ctor < 3; ++ctor) {
            Case c;
            c.ctor = ctor;
            if (ctx) { c.words.push_back({{"x", BACKSLASH}}); c.blanks.push_back(0); }
            c.words.push_back({{word, style}}); c.blanks.push_back(ctx ? 1 : 0);
            if (ctx) { c.words.push_back({{"y", BACKSLASH}}); c.blanks.push_back(2); }
            if (!cb(c)) return;
          }
    }
  }
}

struct Init {
  Init() {
    auto &m = addMode<Case>("roundtrip");
    m.gen = genCase; m.run = runCase; m.show = showCase; m.parse = parseCase; m.enumerator = enumerate;
  }
} init;

}  // namespace

int main(int argc, char **argv) { return harnessMain(argc, argv); }
