// Executor of FixedString operation sequences, templated on the capacity L and on the check:
//   MODEL == false  (C10): arguments are taken as they are (out-of-domain included); oracle = ASan/UBSan
//                   on exact-size heap objects / canary bytes + the well-formedness invariants after
//                   EVERY operation + "const sources are unchanged".
//   MODEL == true   (C11): every argument is first forced into the documented domain of its role;
//                   oracle = the same operation on a std::string, cut off at L, compared after every
//                   mutator, and the std::string result for every observer.
#pragma once

#include "fs_common.hpp"

#include "celma/common/fixed_string.hpp"

#include <cwchar>
#include <cstdarg>
#include <memory>
#include <sstream>

namespace fsx {

using celma::common::FixedString;
constexpr size_t NPOS = std::string::npos;

inline int sgn(int v) { return v < 0 ? -1 : v > 0 ? 1 : 0; }
inline std::string clip(const std::string &s) {
  std::string r;
  for (size_t i = 0; i < s.size() && i < 60; ++i) {
    unsigned char ch = static_cast<unsigned char>(s[i]);
    if (ch < 0x20 || ch >= 0x7f) { char b[8]; snprintf(b, sizeof b, "\\x%02x", ch); r += b; } else r += s[i];
  }
  if (s.size() > 60) r += "...(" + std::to_string(s.size()) + ")";
  return r;
}
inline std::string numStr(uint64_t v) {
  if (v == UINT64_MAX) return "npos";
  if (v > UINT64_MAX - 100000) return "npos-" + std::to_string(UINT64_MAX - v);
  return std::to_string(v);
}

// exact-size heap copy of a C string / byte block: reads past its end are seen by ASan
struct HeapChars {
  char *p;
  size_t n;
  explicit HeapChars(const std::string &s, bool terminate = true) : n(s.size()) {
    p = new char[n + (terminate ? 1 : 0)];
    if (n) memcpy(p, s.data(), n);
    if (terminate) p[n] = '\0';
  }
  ~HeapChars() { delete[] p; }
  HeapChars(const HeapChars &) = delete;
};

template <size_t L, bool MODEL>
class Exec {
public:
  using FS = FixedString<L>;
  struct Guarded {
    unsigned char pre[64];
    FS fs;
    unsigned char post[64];
  };

  explicit Exec(const Case &cs) : c(cs), sk(sink()) {}
  ~Exec() { release(fs, gMain); release(peer, gPeer); }

  std::string run() {
    fs = allocate(gMain);
    peer = allocate(gPeer);
    // initial contents through the std::string constructor (part of the interface under test)
    {
      std::string t = cycle(c.init, textLength(c.il, 0, L));
      if (MODEL) printable(t);
      std::unique_ptr<std::string> sp(new std::string(t));
      fs->~FS();
      new (fs) FS(*sp);
      if (MODEL) { m = t; trunc(m); }
      if (t.find('\0') != NPOS) nul = true;
      std::string pt = cycle(c.pinit, textLength(c.pl, 0, L));
      if (MODEL) printable(pt);
      std::unique_ptr<std::string> pp(new std::string(pt));
      peer->~FS();
      new (peer) FS(*pp);
      if (MODEL) { pm = pt; trunc(pm); }
      if (pt.find('\0') != NPOS) pnul = true;
    }
    where = "initial state: ";
    checkState();
    if (!err.empty()) return err;
    bool sawObserver = false, sawMidMutator = false, sawOod = false;
    for (size_t i = 0; i < c.ops.size(); ++i) {
      const Op &op = c.ops[i];
      if (op.kind < 0 || op.kind >= K_COUNT) return "bad operation kind";
      const OpInfo &info = opInfo(op.kind);
      where = "op #" + std::to_string(i) + " " + info.name + " (L=" + std::to_string(L) + ", length " +
              std::to_string(fs->length()) + " \"" + clip(MODEL ? m.substr(0, 61) : std::string(fs->c_str(), std::min<size_t>(std::min<size_t>(fs->length(), L), 61))) + "\"): ";
      detail.clear();
      midMutation = false;
      oodArgument = false;
      bool done = step(op, info);
      if (!err.empty()) return err;
      if (done) {
        sk.cls(std::string("op.") + info.name);
        if (!info.mutator) sawObserver = true;
        if (midMutation) sawMidMutator = true;
        if (oodArgument) sawOod = true;
      }
      checkState();
      if (!err.empty()) return err;
      if (fs->length() == L) reachedFull = true;
    }
    if (MODEL) {
      if (reachedFull) sk.cls("model.reached_capacity");
      if (reachedFull && sawObserver && sawMidMutator) sk.nontrivial();
    } else {
      if (sawOod) sk.nontrivial();
    }
    return "";
  }

private:
  const Case &c;
  Sink &sk;
  FS *fs = nullptr, *peer = nullptr;
  Guarded *gMain = nullptr, *gPeer = nullptr;
  std::string m, pm;          // models (MODEL only)
  bool nul = false, pnul = false;   // a NUL character may have been stored -> strlen clause off
  bool reachedFull = false, midMutation = false, oodArgument = false;
  std::string err, where, detail;
  // resolved arguments of the current operation
  uint64_t A = 0, B = 0, C = 0, D = 0;
  std::string text;      // source text of the operation (after cycling)
  std::string srcText;   // what the source object holds (text cut at its capacity, or peer/self content)
  size_t srcLen = 0;

  // ------------------------------------------------------------------ storage
  FS *allocate(Guarded *&g) {
    if (c.place == 1) {
      g = static_cast<Guarded *>(::operator new(sizeof(Guarded)));
      memset(g->pre, 0xA5, sizeof g->pre);
      memset(g->post, 0xA5, sizeof g->post);
      return new (&g->fs) FS;
    }
    return new FS;   // exactly sizeof(FS) bytes: ASan red zones start right behind the buffer/length
  }
  void release(FS *p, Guarded *g) {
    if (g) ::operator delete(g);
    else delete p;
  }
  template <class... Args>
  void reconstruct(Args &&...args) {
    fs->~FS();
    new (fs) FS(std::forward<Args>(args)...);
  }
  void checkCanaries(const Guarded *g, const char *who) {
    if (!g) return;
    for (size_t i = 0; i < sizeof g->pre; ++i)
      if (g->pre[i] != 0xA5) { fail(std::string("byte ") + std::to_string(sizeof g->pre - i) + " before the " + who + " was overwritten"); return; }
    for (size_t i = 0; i < sizeof g->post; ++i)
      if (g->post[i] != 0xA5) { fail(std::string("byte ") + std::to_string(i + 1) + " behind the " + who + " was overwritten"); return; }
  }

  // ------------------------------------------------------------------ helpers
  void fail(const std::string &msg) {
    if (err.empty()) err = where + detail + msg;
  }
  static void trunc(std::string &s) { if (s.size() > L) s.resize(L); }
  static char chOf(const Op &op) {
    const int u = op.ch & 0xff;
    return (MODEL && (u < 0x20 || u > 0x7e)) ? static_cast<char>(0x20 + u % 95) : static_cast<char>(u);
  }
  static void printable(std::string &s) {
    for (char &ch : s) { unsigned char u = static_cast<unsigned char>(ch); if (u < 0x20 || u > 0x7e) ch = static_cast<char>(0x20 + u % 95); }
  }
  static std::string safeStr(const FS &f) {
    size_t n = f.length();
    if (n > L) n = L;
    return std::string(f.c_str(), n);
  }
  size_t len() const { return MODEL ? m.size() : static_cast<size_t>(fs->length()); }

  void wellFormed(const FS &f, bool nulStored, const char *who) {
    size_t n = f.length();
    if (n > L) { fail(std::string(who) + ": length() " + std::to_string(n) + " exceeds the capacity " + std::to_string(L)); return; }
    const char *p = f.c_str();
    if (p[n] != '\0') { fail(std::string(who) + ": not NUL-terminated at length() " + std::to_string(n)); return; }
    if (!nulStored) {
      size_t sl = strnlen(p, L + 1);
      if (sl != n) fail(std::string(who) + ": strlen(c_str()) is " + (sl > L ? std::string("beyond the buffer") : std::to_string(sl)) +
                        " but length() is " + std::to_string(n));
    }
  }
  void agrees(const FS &f, const std::string &model, const char *who) {
    if (f.length() != model.size()) { fail(std::string(who) + ": length() is " + std::to_string(f.length()) + ", std::string cut at the capacity has " +
                                           std::to_string(model.size()) + " \"" + clip(model) + "\", str() is \"" + clip(safeStr(f)) + "\""); return; }
    if (f.str() != model) { fail(std::string(who) + ": str() is \"" + clip(f.str()) + "\", std::string cut at the capacity is \"" + clip(model) + "\""); return; }
    if (memcmp(f.c_str(), model.c_str(), model.size() + 1) != 0) { fail(std::string(who) + ": c_str() differs from the reference"); return; }
    if (f.empty() != model.empty()) fail(std::string(who) + ": empty() wrong");
  }
  void checkState() {
    checkCanaries(gMain, "object");
    checkCanaries(gPeer, "second object");
    if (!err.empty()) return;
    wellFormed(*fs, nul, "object");
    wellFormed(*peer, pnul, "second object");
    if (!err.empty() || !MODEL) return;
    agrees(*fs, m, "object");
    agrees(*peer, pm, "second object");
  }

  template <class T>
  void eq(const char *what, const T &got, const T &want) {
    if (!(got == want)) {
      std::ostringstream o;
      o << what << " returned " << fmtv(got) << ", std::string gives " << fmtv(want);
      fail(o.str());
    }
  }
  static std::string fmtv(size_t v) { return numStr(v); }
  static std::string fmtv(bool v) { return v ? "true" : "false"; }
  static std::string fmtv(int v) { return std::to_string(v); }
  static std::string fmtv(char v) { return "'" + clip(std::string(1, v)) + "'"; }
  static std::string fmtv(const std::string &v) { return "\"" + clip(v) + "\""; }
  void eqSign(const char *what, int got, int want) {
    if (sgn(got) != sgn(want)) fail(std::string(what) + " returned " + std::to_string(got) + ", std::string gives " + std::to_string(want) + " (signs differ)");
  }
  bool skip(const char *why) { sk.cls(std::string("skipped.") + why); return false; }

  // position -> iterator (>= length gives end())
  typename FS::const_iterator cit(const FS &f, uint64_t pos) { auto it = f.cbegin(); if (pos) it += pos; return it; }
  typename FS::iterator nit(FS &f, uint64_t pos) { auto it = f.begin(); if (pos) it += pos; return it; }

  // ------------------------------------------------------------------ argument resolution
  bool resolveArg(Role r, const Num &n, uint64_t &out, uint64_t first) {
    const uint64_t ln = len();
    uint64_t v = resolve(n, ln, L, srcLen);
    switch (r) {
      case R_NONE: break;
      case R_POS:
        if (MODEL) v = std::min<uint64_t>(v, ln); else if (v > ln) oodArgument = true;
        break;
      case R_POSLT:
        if (MODEL) { if (ln == 0) return skip("empty_string"); v = std::min<uint64_t>(v, ln - 1); } else if (v >= ln) oodArgument = true;
        break;
      case R_IDX:
        if (MODEL) { if (v == ln) return skip("at_length"); } else if (v > ln) oodArgument = true;
        break;
      case R_CNT: if (!MODEL && v > ln) oodArgument = true; break;
      case R_ICNT:
        if (MODEL) v = std::min<uint64_t>(v, 2 * L + 600); else if (v > L - std::min<uint64_t>(ln, L)) oodArgument = true;
        break;
      case R_LAST:
        if (MODEL) { v = std::max<uint64_t>(v, first + 1); v = std::min<uint64_t>(v, ln); }
        break;
      case R_SPOS:
        if (MODEL) v = std::min<uint64_t>(v, srcLen); else if (v > srcLen) oodArgument = true;
        break;
      case R_SPOSLT:
        if (MODEL) { if (srcLen == 0) return skip("empty_source"); v = std::min<uint64_t>(v, srcLen - 1); }
        break;
      case R_SLAST:
        if (MODEL) { v = std::max<uint64_t>(v, first + 1); v = std::min<uint64_t>(v, srcLen); }
        break;
      case R_SCNT: if (!MODEL && v > srcLen) oodArgument = true; break;
      case R_SCNTLE: v = std::min<uint64_t>(v, srcLen); break;   // both checks: never more than the buffer holds
      case R_RPOSLE:
        if (MODEL) { if (v != NPOS) v = std::min<uint64_t>(v, ln); } else if (v > ln && v != NPOS) oodArgument = true;
        break;
      case R_RPOSLT:
        if (MODEL) { if (v != NPOS) v = ln == 0 ? NPOS : std::min<uint64_t>(v, ln - 1); } else if (v >= ln && v != NPOS) oodArgument = true;
        break;
      case R_INT: v = static_cast<uint64_t>(static_cast<int64_t>(static_cast<int32_t>(v))); break;
    }
    out = v;
    return true;
  }

  // run fn(source FixedString) for the source object selected by op.src
  template <class F>
  void withFs(int src, F &&fn) {
    switch (src) {
      case SRC_FS4: { std::unique_ptr<FixedString<kSrcCap0>> p(new FixedString<kSrcCap0>(text)); fn(*p); unchanged(*p); break; }
      case SRC_FS300: { std::unique_ptr<FixedString<kSrcCap1>> p(new FixedString<kSrcCap1>(text)); fn(*p); unchanged(*p); break; }
      case SRC_FS70000: { std::unique_ptr<FixedString<kSrcCap2>> p(new FixedString<kSrcCap2>(text)); fn(*p); unchanged(*p); break; }
      case SRC_PEER: fn(*peer); unchanged(*peer); break;
      case SRC_SELF: fn(*fs); break;
      default: { std::unique_ptr<FS> p(new FS(text)); fn(*p); unchanged(*p); break; }
    }
  }
  template <class F>
  void withSameL(int src, F &&fn) {
    switch (src) {
      case SRC_PEER: fn(*peer); unchanged(*peer); break;
      case SRC_SELF: fn(*fs); break;
      default: { std::unique_ptr<FS> p(new FS(text)); fn(*p); unchanged(*p); break; }
    }
  }
  template <size_t S>
  void unchanged(const FixedString<S> &src) {
    if (src.length() != srcText.size() || memcmp(src.c_str(), srcText.c_str(), srcText.size() + 1) != 0)
      fail("the const source argument was modified (now \"" + clip(std::string(src.c_str(), std::min<size_t>(src.length(), S))) + "\")");
  }
  static size_t srcCapOf(int src) {
    switch (src) {
      case SRC_FS4: return kSrcCap0;
      case SRC_FS300: return kSrcCap1;
      case SRC_FS70000: return kSrcCap2;
      default: return L;
    }
  }

  // ------------------------------------------------------------------ find families
  // fam: 0 find, 1 rfind, 2 find_first_of, 3 find_first_not_of, 4 find_last_of, 5 find_last_not_of
  template <class T, class S>
  static size_t callFind(int fam, const T &t, const S &s, size_t pos, bool dflt) {
    switch (fam) {
      case 0: return dflt ? t.find(s) : t.find(s, pos);
      case 1: return dflt ? t.rfind(s) : t.rfind(s, pos);
      case 2: return dflt ? t.find_first_of(s) : t.find_first_of(s, pos);
      case 3: return dflt ? t.find_first_not_of(s) : t.find_first_not_of(s, pos);
      case 4: return dflt ? t.find_last_of(s) : t.find_last_of(s, pos);
      default: return dflt ? t.find_last_not_of(s) : t.find_last_not_of(s, pos);
    }
  }
  template <class T>
  static size_t callFindN(int fam, const T &t, const char *s, size_t pos, size_t n) {
    switch (fam) {
      case 0: return t.find(s, pos, n);
      case 1: return t.rfind(s, pos, n);
      case 2: return t.find_first_of(s, pos, n);
      case 3: return t.find_first_not_of(s, pos, n);
      case 4: return t.find_last_of(s, pos, n);
      default: return t.find_last_not_of(s, pos, n);
    }
  }
  static const char *famName(int fam) {
    static const char *const n[] = {"find", "rfind", "find_first_of", "find_first_not_of", "find_last_of", "find_last_not_of"};
    return n[fam];
  }
  void foundCheck(int fam, size_t got, size_t want) {
    if (MODEL) eq(famName(fam), got, want);
    else if (got != NPOS && got > fs->length()) fail(std::string(famName(fam)) + " returned " + numStr(got) + " which is neither npos nor a position in the string");
  }
  void findOp(const Op &op, int src, int fam, int form) {
    const FS &cf = *fs;
    const bool dflt = (op.v & 1) != 0;
    const size_t pos = A;
    detail = "(pos " + (dflt ? std::string("default") : numStr(pos)) + ", pattern \"" + clip(form == 0 ? srcText : text) + "\") ";
    switch (form) {
      case 0:
        withSameL(src, [&](FS &sfs) {
          size_t got = callFind(fam, cf, static_cast<const FS &>(sfs), pos, dflt);
          foundCheck(fam, got, MODEL ? callFind(fam, m, srcText, pos, dflt) : 0);
        });
        break;
      case 1: {
        std::unique_ptr<std::string> sp(new std::string(text));
        size_t got = callFind(fam, cf, static_cast<const std::string &>(*sp), pos, dflt);
        foundCheck(fam, got, MODEL ? callFind(fam, m, text, pos, dflt) : 0);
        break;
      }
      case 2: {
        HeapChars hc(text);
        detail += "(count " + numStr(B) + ") ";
        if (MODEL && B == 0) { skip("empty_pattern"); return; }
        size_t got = callFindN(fam, cf, hc.p, pos, B);
        foundCheck(fam, got, MODEL ? callFindN(fam, m, text.c_str(), pos, B) : 0);
        break;
      }
      case 3: {
        HeapChars hc(text);
        size_t got = callFind(fam, cf, static_cast<const char *>(hc.p), pos, dflt);
        foundCheck(fam, got, MODEL ? callFind(fam, m, text.c_str(), pos, dflt) : 0);
        break;
      }
      default: {
        char chv = chOf(op);
        detail = "(pos " + (dflt ? std::string("default") : numStr(pos)) + ", ch " + fmtv(chv) + ") ";
        size_t got = callFind(fam, cf, chv, pos, dflt);
        foundCheck(fam, got, MODEL ? callFind(fam, m, chv, pos, dflt) : 0);
      }
    }
  }

  // model of "replace then cut off"
  void mReplace(size_t pos, size_t cnt, const std::string &with) {
    if (pos < m.size()) midMutation = true;
    m.replace(pos, cnt, with);
    trunc(m);
  }
  void mInsert(size_t pos, const std::string &what) {
    if (pos < m.size()) midMutation = true;
    m.insert(pos, what);
    trunc(m);
  }
  void mAppend(const std::string &what) { m.append(what); trunc(m); }
  void noteNul(const std::string &t) { if (t.find('\0') != NPOS) nul = true; }
  void noteNul(int chv) { if ((chv & 0xff) == 0) nul = true; }

  // ------------------------------------------------------------------ one operation
  bool step(const Op &op, const OpInfo &info);
  void iterFwd(int v);
  void iterRev(int v);
  void iterRandom();
  void iterWalk(int v);
};

// ======================================================================================
template <size_t L, bool MODEL>
bool Exec<L, MODEL>::step(const Op &op, const OpInfo &info) {
  // ---- source text and source object
  text.clear();
  srcText.clear();
  srcLen = 0;
  int src = op.src;
  if (info.srcMask) {
    if (src < 0 || src > 5 || !(info.srcMask & (1 << src))) {
      // pick the first allowed one deterministically (keeps every decoded/parsed case executable)
      for (src = 0; src < 6 && !(info.srcMask & (1 << src)); ++src) {}
    }
  }
  if (info.strFlags & S_USED) {
    text = cycle(op.s, textLength(op.sl, len(), L));
    if (info.strFlags & S_NONUL) text = std::string(text.c_str());
    if (MODEL) printable(text);   // C11: printable contents only
    srcText = text;
    if (info.srcMask) {
      if (src == SRC_PEER) srcText = MODEL ? pm : safeStr(*peer);
      else if (src == SRC_SELF) srcText = MODEL ? m : safeStr(*fs);
      else if (srcText.size() > srcCapOf(src)) srcText.resize(srcCapOf(src));
    }
    srcLen = srcText.size();
    if (MODEL && (info.strFlags & S_NONEMPTY) && srcLen == 0) return skip("empty_pattern");
  } else if (info.srcMask) {   // swap
    srcText = src == SRC_PEER ? (MODEL ? pm : safeStr(*peer)) : (MODEL ? m : safeStr(*fs));
    srcLen = srcText.size();
  }
  if (src == SRC_SELF && info.srcMask) sk.cls("source.self");
  // ---- arguments
  if (!resolveArg(info.r[0], op.a, A, 0)) return false;
  if (!resolveArg(info.r[1], op.b, B, A)) return false;
  if (!resolveArg(info.r[2], op.c, C, 0)) return false;
  if (!resolveArg(info.r[3], op.d, D, C)) return false;
  {
    detail = "args(";
    const uint64_t av[4] = {A, B, C, D};
    bool first = true;
    for (int i = 0; i < 4; ++i)
      if (info.r[i] != R_NONE) { detail += (first ? "" : ",") + numStr(av[i]); first = false; }
    if (info.usesCh) detail += std::string(first ? "" : ",") + "ch " + std::to_string(op.ch & 0xff);
    if (info.strFlags & S_USED) detail += std::string(",src ") + (info.srcMask ? "#" + std::to_string(src) + " " : "") + "\"" + clip(srcText) + "\"";
    if (info.variants > 1) detail += ",variant " + std::to_string(op.v % info.variants);
    detail += ") ";
  }
  // C11: printable characters only (a NUL as search character finds the terminator - outside the stated domain)
  const char chv = chOf(op);
  const int v = op.v >= 0 ? op.v % info.variants : 0;
  const size_t ln = len();
  const FS &cf = *fs;
  const bool srcNul = srcText.find('\0') != NPOS;

  switch (op.kind) {
    // ------------------------------------------------------------ construction / assignment
    case K_ctor_default: reconstruct(); nul = false; if (MODEL) m.clear(); break;
    case K_ctor_cstr: { HeapChars hc(text); reconstruct(static_cast<const char *>(hc.p)); nul = false; if (MODEL) { m = text; trunc(m); } break; }
    case K_ctor_str: { std::unique_ptr<std::string> sp(new std::string(text)); reconstruct(static_cast<const std::string &>(*sp)); nul = text.find('\0') != NPOS; if (MODEL) { m = text; trunc(m); } break; }
    case K_ctor_copy:
      withSameL(src, [&](FS &s) { reconstruct(static_cast<const FS &>(s)); });
      nul = src == SRC_PEER ? pnul : srcNul;
      if (MODEL) m = srcText;
      break;
    case K_ctor_fs:
      withFs(src, [&](auto &s) { reconstruct(s); });
      nul = srcNul;
      if (MODEL) { m = srcText; trunc(m); }
      break;
    case K_ctor_move:
      withSameL(src, [&](FS &s) { FS tmp(s); reconstruct(std::move(tmp)); });
      nul = src == SRC_PEER ? pnul : srcNul;
      if (MODEL) m = srcText;
      break;
    case K_assign_cstr: case K_opassign_cstr: {
      HeapChars hc(text);
      if (op.kind == K_assign_cstr) fs->assign(static_cast<const char *>(hc.p)); else *fs = static_cast<const char *>(hc.p);
      nul = false;
      if (MODEL) { m = text; trunc(m); }
      break;
    }
    case K_assign_str: case K_opassign_str: {
      std::unique_ptr<std::string> sp(new std::string(text));
      if (op.kind == K_assign_str) fs->assign(static_cast<const std::string &>(*sp)); else *fs = static_cast<const std::string &>(*sp);
      nul = text.find('\0') != NPOS;
      if (MODEL) { m = text; trunc(m); }
      break;
    }
    case K_assign_fs: case K_opassign_fs: {
      const bool isAssign = op.kind == K_assign_fs;
      withFs(src, [&](auto &s) { const auto &cs = s; if (isAssign) fs->assign(cs); else *fs = cs; });
      if (src != SRC_SELF) nul = src == SRC_PEER ? pnul : srcNul;
      if (MODEL) { std::string t = srcText; trunc(t); m = t; }
      break;
    }
    case K_clear: fs->clear(); nul = false; if (MODEL) m.clear(); break;
    case K_peer_assign: {
      std::unique_ptr<std::string> sp(new std::string(text));
      peer->assign(static_cast<const std::string &>(*sp));
      pnul = text.find('\0') != NPOS;
      if (MODEL) { pm = text; trunc(pm); }
      break;
    }

    // ------------------------------------------------------------ element access
    case K_at: {
      try {
        char got = (v & 1) ? cf.at(A) : fs->at(A);
        if (A > ln) fail("at() beyond the end did not throw std::out_of_range");
        else if (MODEL) eq("at()", got, m[A]);
      } catch (const std::out_of_range &) {
        if (A <= ln) fail("at() threw for an index inside the string");
      }
      break;
    }
    case K_index: {
      size_t i = std::min<uint64_t>(A, ln);   // beyond length(): documented as undefined -> never generated
      char got = (v & 1) ? cf[i] : (*fs)[i];
      if (MODEL) eq("operator[]", got, i < ln ? m[i] : '\0');
      break;
    }
    case K_front_back: {
      char f1 = fs->front(), f2 = cf.front(), b1 = fs->back(), b2 = cf.back();
      const char *d1 = fs->data(), *d2 = cf.data();
      if (d1 != cf.c_str() || d2 != cf.c_str()) fail("data() differs from c_str()");
      if (MODEL) {
        // documented: both return the zero character when the string is empty
        char wf = m.empty() ? '\0' : m.front(), wb = m.empty() ? '\0' : m.back();
        eq("front()", f1, wf); eq("front() const", f2, wf); eq("back()", b1, wb); eq("back() const", b2, wb);
      }
      break;
    }
    case K_write_ref: {
      size_t i = A;
      // writing through a reference is the caller's business: only existing characters are overwritten
      if (i >= ln) return skip("write_outside");
      switch (v) {
        case 0: try { fs->at(i) = chv; } catch (const std::out_of_range &) { fail("at() threw for an index inside the string"); return true; } break;
        case 1: (*fs)[i] = chv; break;
        case 2: i = 0; fs->front() = chv; break;
        case 3: i = ln - 1; fs->back() = chv; break;
        case 4: fs->data()[i] = chv; break;
        case 5: try { *nit(*fs, i) = chv; } catch (const std::range_error &) { fail("dereferencing a valid iterator threw"); return true; } break;
        default: { auto r = fs->rbegin(); if (ln - 1 - i) r += (ln - 1 - i); *r = chv; break; }
      }
      noteNul(chv);
      if (MODEL && i < m.size()) { m[i] = chv; midMutation = true; }
      break;
    }
    case K_iter_fwd: iterFwd(v); break;
    case K_iter_rev: iterRev(v); break;
    case K_iter_random: iterRandom(); break;
    case K_iter_walk: if (MODEL) return skip("safety_only"); iterWalk(op.v); break;

    // ------------------------------------------------------------ insert
    case K_insert_cnt_ch:
      fs->insert(A, B, chv); if (B) noteNul(chv);
      if (MODEL) mInsert(A, std::string(B, chv));
      break;
    case K_insert_cstr_cnt: { HeapChars hc(text); fs->insert(A, static_cast<const char *>(hc.p), B); if (MODEL) mInsert(A, text.substr(0, B)); break; }
    case K_insert_cstr: { HeapChars hc(text); fs->insert(A, static_cast<const char *>(hc.p)); if (MODEL) mInsert(A, text); break; }
    case K_insert_str: {
      std::unique_ptr<std::string> sp(new std::string(text));
      fs->insert(A, static_cast<const std::string &>(*sp)); noteNul(text);
      if (MODEL) mInsert(A, text);
      break;
    }
    case K_insert_str_sub: {
      std::unique_ptr<std::string> sp(new std::string(text));
      if (v & 1) fs->insert(A, static_cast<const std::string &>(*sp), B); else fs->insert(A, static_cast<const std::string &>(*sp), B, C);
      noteNul(text);
      if (MODEL) mInsert(A, text.substr(B, (v & 1) ? NPOS : C));
      break;
    }
    case K_insert_fs:
      if (srcNul) nul = true;
      withFs(src, [&](auto &s) { const auto &cs = s; fs->insert(A, cs); });
      if (MODEL) mInsert(A, srcText);
      break;
    case K_insert_fs_sub:
      if (srcNul) nul = true;
      withFs(src, [&](auto &s) { const auto &cs = s; if (v & 1) fs->insert(A, cs, B); else fs->insert(A, cs, B, C); });
      if (MODEL) mInsert(A, srcText.substr(B, (v & 1) ? NPOS : C));
      break;
    case K_insert_it_ch:
      fs->insert(cit(cf, A), chv); noteNul(chv);
      if (MODEL) mInsert(A, std::string(1, chv));
      break;
    case K_insert_it_cnt_ch:
      fs->insert(cit(cf, A), B, chv); if (B) noteNul(chv);
      if (MODEL) mInsert(A, std::string(B, chv));
      break;
    case K_insert_it_ilist: {
      auto pos = cit(cf, A);
      switch (v) {
        case 0: fs->insert(pos, {}); break;
        case 1: fs->insert(pos, {'q'}); break;
        case 2: fs->insert(pos, {'a', 'b'}); break;
        case 3: fs->insert(pos, {'a', 'b', 'c'}); break;
        case 4: fs->insert(pos, {'a', 'b', 'c', 'd', 'e'}); break;
        case 5: fs->insert(pos, {'a', 'b', 'c', 'd', 'e', 'f', 'g', 'h', 'i'}); break;
        case 6: fs->insert(pos, {'a', 'b', 'c', 'd', 'e', 'f', 'g', 'h', 'i', 'j', 'k', 'l', 'm', 'n', 'o', 'p', 'q'}); break;
        default: fs->insert(pos, {'a', 'b', 'c', 'd', 'e', 'f', 'g', 'h', 'i', 'j', 'k', 'l', 'm', 'n', 'o', 'p', 'q', 'r', 's', 't',
                                  'u', 'v', 'w', 'x', 'y', 'z', 'A', 'B', 'C', 'D', 'E', 'F', 'G', 'H', 'I', 'J', 'K', 'L', 'M', 'N'}); break;
      }
      if (MODEL) mInsert(A, ilistText(v));
      break;
    }

    // ------------------------------------------------------------ erase / push / pop
    case K_erase:
      if (v == 2) { fs->erase(); if (MODEL) m.erase(); }
      else if (v == 1) { fs->erase(A); if (MODEL) { if (A < m.size()) midMutation = true; m.erase(A); } }
      else { fs->erase(A, B); if (MODEL) { if (A < m.size() && B) midMutation = true; m.erase(A, B); } }
      break;
    case K_erase_it:
      fs->erase(cit(cf, A));
      if (MODEL) { m.erase(A, 1); midMutation = true; }
      break;
    case K_erase_range:
      fs->erase(cit(cf, A), cit(cf, B));
      if (MODEL) { m.erase(A, B - A); midMutation = true; }
      break;
    case K_push_back: fs->push_back(chv); if (ln < L) noteNul(chv); if (MODEL) mAppend(std::string(1, chv)); break;
    case K_pop_back: fs->pop_back(); if (MODEL && !m.empty()) m.pop_back(); break;

    // ------------------------------------------------------------ append
    case K_append_cnt_ch: fs->append(A, chv); if (A) noteNul(chv); if (MODEL) mAppend(std::string(A, chv)); break;
    case K_append_str: case K_plus_str: {
      std::unique_ptr<std::string> sp(new std::string(text));
      if (op.kind == K_append_str) fs->append(static_cast<const std::string &>(*sp)); else *fs += static_cast<const std::string &>(*sp);
      noteNul(text);
      if (MODEL) mAppend(text);
      break;
    }
    case K_append_fs: case K_plus_fs: {
      const bool isAppend = op.kind == K_append_fs;
      if (srcNul) nul = true;
      withFs(src, [&](auto &s) { const auto &cs = s; if (isAppend) fs->append(cs); else *fs += cs; });
      if (MODEL) mAppend(srcText);
      break;
    }
    case K_append_str_sub: {
      std::unique_ptr<std::string> sp(new std::string(text));
      if (v & 1) fs->append(static_cast<const std::string &>(*sp), A); else fs->append(static_cast<const std::string &>(*sp), A, B);
      noteNul(text);
      if (MODEL) mAppend(text.substr(A, (v & 1) ? NPOS : B));
      break;
    }
    case K_append_fs_sub:
      if (srcNul) nul = true;
      withFs(src, [&](auto &s) { const auto &cs = s; if (v & 1) fs->append(cs, A); else fs->append(cs, A, B); });
      if (MODEL) mAppend(srcText.substr(A, (v & 1) ? NPOS : B));
      break;
    case K_append_cstr_cnt: { HeapChars hc(text); fs->append(static_cast<const char *>(hc.p), A); if (MODEL) mAppend(text.substr(0, A)); break; }
    case K_append_cstr: case K_plus_cstr: {
      HeapChars hc(text);
      if (op.kind == K_append_cstr) fs->append(static_cast<const char *>(hc.p)); else *fs += static_cast<const char *>(hc.p);
      if (MODEL) mAppend(text);
      break;
    }
    case K_append_range:
      if (srcNul) nul = true;
      withSameL(src, [&](FS &s) { const FS &cs = s; fs->append(cit(cs, A), cit(cs, B)); });
      if (MODEL) mAppend(srcText.substr(A, B - A));
      break;
    case K_plus_ch: *fs += chv; if (ln < L) noteNul(chv); if (MODEL) mAppend(std::string(1, chv)); break;
    case K_sprintf: {
      HeapChars hc(text);
      const char *fmt = sprintfFormat(v);
      const int iv = static_cast<int>(static_cast<int64_t>(A));
      const int cv = (op.ch & 0xff) ? (op.ch & 0xff) : 'c';   // a NUL through %c is a stored NUL: keep the strlen clause simple
      switch (v) {
        case 0: case 4: case 6: fs->sprintf(fmt, hc.p); break;
        case 1: fs->sprintf(fmt, iv); break;
        case 2: fs->sprintf(fmt, hc.p, iv); break;
        case 3: fs->sprintf(fmt, iv, hc.p); break;
        case 7: fs->sprintf(fmt, static_cast<wint_t>(0x20AC)); break;
        default: fs->sprintf(fmt, iv, cv); break;
      }
      nul = false;
      if (MODEL) {
        auto render = [&](char *buf, size_t n) -> int {
          switch (v) {
            case 0: case 4: case 6: return snprintf(buf, n, fmt, hc.p);
            case 1: return snprintf(buf, n, fmt, iv);
            case 2: return snprintf(buf, n, fmt, hc.p, iv);
            case 3: return snprintf(buf, n, fmt, iv, hc.p);
            case 7: return -1;   // the conversion fails
            default: return snprintf(buf, n, fmt, iv, cv);
          }
        };
        int need = render(nullptr, 0);
        if (need < 0) { m.assign(fs->c_str(), std::min<size_t>(fs->length(), L)); break; }   // no std::string counterpart: only the invariants are judged
        std::string full(static_cast<size_t>(need) + 1, '\0');
        render(&full[0], full.size());
        full.resize(static_cast<size_t>(need));
        m = full;
        trunc(m);
      }
      break;
    }

    // ------------------------------------------------------------ compare / starts / ends / contains
    case K_cmp_fs:
      withFs(src, [&](auto &s) { const auto &cs = s; int got = cf.compare(cs); if (MODEL) eqSign("compare(fs)", got, m.compare(srcText)); });
      break;
    case K_cmp_str: { std::unique_ptr<std::string> sp(new std::string(text)); int got = cf.compare(static_cast<const std::string &>(*sp)); if (MODEL) eqSign("compare(str)", got, m.compare(text)); break; }
    case K_cmp_cstr: { HeapChars hc(text); int got = cf.compare(static_cast<const char *>(hc.p)); if (MODEL) eqSign("compare(cstr)", got, m.compare(text.c_str())); break; }
    case K_cmp_pc_fs:
      withFs(src, [&](auto &s) { const auto &cs = s; int got = cf.compare(A, B, cs); if (MODEL) eqSign("compare(pos,count,fs)", got, m.compare(A, B, srcText)); });
      break;
    case K_cmp_pc_str: { std::unique_ptr<std::string> sp(new std::string(text)); int got = cf.compare(A, B, static_cast<const std::string &>(*sp)); if (MODEL) eqSign("compare(pos,count,str)", got, m.compare(A, B, text)); break; }
    case K_cmp_pc_cstr: { HeapChars hc(text); int got = cf.compare(A, B, static_cast<const char *>(hc.p)); if (MODEL) eqSign("compare(pos,count,cstr)", got, m.compare(A, B, text.c_str())); break; }
    case K_cmp_pcpc_fs:
      withFs(src, [&](auto &s) { const auto &cs = s; int got = cf.compare(A, B, cs, C, D); if (MODEL) eqSign("compare(pos1,count1,fs,pos2,count2)", got, m.compare(A, B, srcText, C, D)); });
      break;
    case K_cmp_pcpc_str: { std::unique_ptr<std::string> sp(new std::string(text)); int got = cf.compare(A, B, static_cast<const std::string &>(*sp), C, D); if (MODEL) eqSign("compare(pos1,count1,str,pos2,count2)", got, m.compare(A, B, text, C, D)); break; }
    case K_cmp_pc_cstr_c: { HeapChars hc(text); int got = cf.compare(A, B, static_cast<const char *>(hc.p), C); if (MODEL) eqSign("compare(pos1,count1,cstr,count2)", got, m.compare(A, B, text.c_str(), C)); break; }

    case K_starts_fs: case K_ends_fs: case K_contains_fs: {
      const int which = op.kind == K_starts_fs ? 0 : op.kind == K_ends_fs ? 1 : 2;
      withFs(src, [&](auto &s) {
        const auto &cs = s;
        bool got = which == 0 ? cf.starts_with(cs) : which == 1 ? cf.ends_with(cs) : cf.contains(cs);
        if (MODEL) {
          const std::string &t = srcText;
          bool want = which == 0 ? (m.size() >= t.size() && m.compare(0, t.size(), t) == 0)
                    : which == 1 ? (m.size() >= t.size() && m.compare(m.size() - t.size(), t.size(), t) == 0) : (m.find(t) != NPOS);
          eq(which == 0 ? "starts_with(fs)" : which == 1 ? "ends_with(fs)" : "contains(fs)", got, want);
        }
      });
      break;
    }
    case K_starts_str: case K_ends_str: case K_contains_str: case K_starts_cstr: case K_ends_cstr: case K_contains_cstr: {
      const bool isStr = op.kind == K_starts_str || op.kind == K_ends_str || op.kind == K_contains_str;
      const int which = (op.kind == K_starts_str || op.kind == K_starts_cstr) ? 0 : (op.kind == K_ends_str || op.kind == K_ends_cstr) ? 1 : 2;
      bool got;
      if (isStr) {
        std::unique_ptr<std::string> sp(new std::string(text));
        const std::string &cs = *sp;
        got = which == 0 ? cf.starts_with(cs) : which == 1 ? cf.ends_with(cs) : cf.contains(cs);
      } else {
        HeapChars hc(text);
        const char *cs = hc.p;
        got = which == 0 ? cf.starts_with(cs) : which == 1 ? cf.ends_with(cs) : cf.contains(cs);
      }
      if (MODEL) {
        const std::string &t = text;
        bool want = which == 0 ? (m.size() >= t.size() && m.compare(0, t.size(), t) == 0)
                  : which == 1 ? (m.size() >= t.size() && m.compare(m.size() - t.size(), t.size(), t) == 0) : (m.find(t) != NPOS);
        eq(which == 0 ? "starts_with" : which == 1 ? "ends_with" : "contains", got, want);
      }
      break;
    }
    case K_starts_ch: { bool got = cf.starts_with(chv); if (MODEL) eq("starts_with(ch)", got, !m.empty() && m.front() == chv); break; }
    case K_ends_ch: { bool got = cf.ends_with(chv); if (MODEL) eq("ends_with(ch)", got, !m.empty() && m.back() == chv); break; }
    case K_contains_ch: { bool got = cf.contains(chv); if (MODEL) eq("contains(ch)", got, m.find(chv) != NPOS); break; }

    // ------------------------------------------------------------ replace
    case K_repl_fs:
      if (srcNul) nul = true;
      withFs(src, [&](auto &s) { const auto &cs = s; fs->replace(A, B, cs); });
      if (MODEL) mReplace(A, B, srcText);
      break;
    case K_repl_str: {
      std::unique_ptr<std::string> sp(new std::string(text));
      fs->replace(A, B, static_cast<const std::string &>(*sp)); noteNul(text);
      if (MODEL) mReplace(A, B, text);
      break;
    }
    case K_repl_fs_sub:
      if (srcNul) nul = true;
      withFs(src, [&](auto &s) { const auto &cs = s; if (v & 1) fs->replace(A, B, cs, C); else fs->replace(A, B, cs, C, D); });
      if (MODEL) mReplace(A, B, srcText.substr(C, (v & 1) ? NPOS : D));
      break;
    case K_repl_str_sub: {
      std::unique_ptr<std::string> sp(new std::string(text));
      if (v & 1) fs->replace(A, B, static_cast<const std::string &>(*sp), C); else fs->replace(A, B, static_cast<const std::string &>(*sp), C, D);
      noteNul(text);
      if (MODEL) mReplace(A, B, text.substr(C, (v & 1) ? NPOS : D));
      break;
    }
    case K_repl_it_it:
      if (srcNul) nul = true;
      withSameL(src, [&](FS &s) { fs->replace(cit(cf, A), cit(cf, B), nit(s, C), nit(s, D)); });
      if (MODEL) mReplace(A, B - A, srcText.substr(C, D - C));
      break;
    case K_repl_it_strit: {
      std::unique_ptr<std::string> sp(new std::string(text));
      size_t f2 = std::min<uint64_t>(C, sp->size()), l2 = std::min<uint64_t>(D, sp->size());
      if (l2 < f2) l2 = f2;   // std::string iterators must form a valid range (caller's obligation in both checks)
      fs->replace(cit(cf, A), cit(cf, B), sp->begin() + f2, sp->begin() + l2);
      noteNul(text);
      if (MODEL) mReplace(A, B - A, text.substr(f2, l2 - f2));
      break;
    }
    case K_repl_it_cstr_cnt: {
      HeapChars hc(text);
      if (MODEL && C == 0) return skip("empty_pattern");
      fs->replace(cit(cf, A), cit(cf, B), static_cast<const char *>(hc.p), C);
      if (MODEL) mReplace(A, B - A, text.substr(0, C));
      break;
    }
    case K_repl_cstr: { HeapChars hc(text); fs->replace(A, B, static_cast<const char *>(hc.p)); if (MODEL) mReplace(A, B, text); break; }
    case K_repl_cstr_cnt: { HeapChars hc(text); fs->replace(A, B, static_cast<const char *>(hc.p), C); if (MODEL) mReplace(A, B, text.substr(0, C)); break; }
    case K_repl_it_cstr: { HeapChars hc(text); fs->replace(cit(cf, A), cit(cf, B), static_cast<const char *>(hc.p)); if (MODEL) mReplace(A, B - A, text); break; }
    case K_repl_cnt_ch:
      fs->replace(A, B, C, chv); if (C) noteNul(chv);
      if (MODEL) mReplace(A, B, std::string(C, chv));
      break;
    case K_repl_it_cnt_ch:
      if (MODEL && C == 0) C = 1;   // the iterator overloads treat an empty replacement as "invalid": kept out of the domain
      fs->replace(cit(cf, A), cit(cf, B), C, chv); if (C) noteNul(chv);
      if (MODEL) mReplace(A, B - A, std::string(C, chv));
      break;
    case K_repl_it_ilist: {
      if (MODEL && v == 0) return skip("empty_pattern");
      auto f1 = cit(cf, A), l1 = cit(cf, B);
      switch (v) {
        case 0: fs->replace(f1, l1, std::initializer_list<char>{}); break;
        case 1: fs->replace(f1, l1, {'q'}); break;
        case 2: fs->replace(f1, l1, {'a', 'b'}); break;
        case 3: fs->replace(f1, l1, {'a', 'b', 'c'}); break;
        case 4: fs->replace(f1, l1, {'a', 'b', 'c', 'd', 'e'}); break;
        case 5: fs->replace(f1, l1, {'a', 'b', 'c', 'd', 'e', 'f', 'g', 'h', 'i'}); break;
        case 6: fs->replace(f1, l1, {'a', 'b', 'c', 'd', 'e', 'f', 'g', 'h', 'i', 'j', 'k', 'l', 'm', 'n', 'o', 'p', 'q'}); break;
        default: fs->replace(f1, l1, {'a', 'b', 'c', 'd', 'e', 'f', 'g', 'h', 'i', 'j', 'k', 'l', 'm', 'n', 'o', 'p', 'q', 'r', 's', 't',
                                      'u', 'v', 'w', 'x', 'y', 'z', 'A', 'B', 'C', 'D', 'E', 'F', 'G', 'H', 'I', 'J', 'K', 'L', 'M', 'N'}); break;
      }
      if (MODEL) mReplace(A, B - A, ilistText(v));
      break;
    }

    // ------------------------------------------------------------ substr / copy / swap
    case K_substr: {
      std::string got = (v & 1) ? fs->substr(A) : fs->substr(A, B);
      if (MODEL) eq("substr()", got, (v & 1) ? m.substr(A) : m.substr(A, B));
      else if (got.size() > ln) fail("substr() returned more characters than the string holds");
      break;
    }
    case K_copy: {
      // A = count, B = pos; the destination is an exact-size heap block of min(count, length-pos) bytes
      const size_t pos = (v == 1) ? 0 : B;
      const size_t n = pos > ln ? 0 : std::min<uint64_t>(A, ln - pos);
      std::unique_ptr<char[]> dst(new char[n]);
      size_t got = v == 2 ? fs->copy(nullptr, A, pos) : v == 1 ? fs->copy(dst.get(), A) : fs->copy(dst.get(), A, pos);
      if (v == 2) { if (got != 0) fail("copy(nullptr,...) reports copied characters"); break; }
      if (got > n) fail("copy() reports " + numStr(got) + " copied characters, more than available (" + std::to_string(n) + ")");
      else if (MODEL) {
        eq("copy()", got, n);
        if (got == n && memcmp(dst.get(), m.data() + pos, n) != 0) fail("copy() delivered the wrong characters");
      }
      break;
    }
    case K_swap:
      if (src == SRC_SELF) fs->swap(*fs);
      else { fs->swap(*peer); std::swap(nul, pnul); if (MODEL) std::swap(m, pm); }
      break;

    // ------------------------------------------------------------ equality, streaming
    case K_eq_ne:
      withFs(src, [&](auto &s) {
        const auto &cs = s;
        bool e1 = cf == cs, n1 = cf != cs, e2 = cs == cf, n2 = cs != cf;
        if (MODEL) {
          if (e1 == n1 || e2 == n2) fail(std::string("operator== and operator!= are not complementary: == gives ") + fmtv(e1) + ", != gives " + fmtv(n1));
          else { eq("operator==", e1, m == srcText); eq("operator== (operands swapped)", e2, m == srcText); }
        }
      });
      break;
    case K_stream: {
      std::ostringstream os;
      os << cf;
      if (MODEL) eq("operator<<", os.str(), std::string(m.c_str()));
      break;
    }

    default: {
      // the 30 search overloads
      if (op.kind >= K_find_fs && op.kind <= K_flno_ch) {
        int rel = op.kind - K_find_fs;
        findOp(op, src, rel / 5, rel % 5);
      } else {
        fail("operation not implemented");
      }
    }
  }
  (void)ln;
  return true;
}

// ---------------------------------------------------------------------------------- iteration
template <size_t L, bool MODEL>
void Exec<L, MODEL>::iterFwd(int v) {
  const FS &cf = *fs;
  std::string got;
  size_t guard = 0;
  const size_t limit = static_cast<size_t>(L) + 2;
  try {
    switch (v) {
      case 0: for (auto it = fs->begin(); it != fs->end(); ++it) { got += *it; if (++guard > limit) break; } break;
      case 1: for (auto it = cf.begin(); it != cf.end(); it++) { got += *it; if (++guard > limit) break; } break;
      case 2: for (auto it = cf.cbegin(); it != cf.cend(); ++it) { got += *it; if (++guard > limit) break; } break;
      default: for (char ch : cf) { got += ch; if (++guard > limit) break; } break;
    }
  } catch (const std::exception &e) { fail(std::string("forward iteration threw ") + e.what()); return; }
  if (guard > limit) { fail("forward iteration does not terminate"); return; }
  if (MODEL) eq("forward iteration", got, m);
  else if (got.size() != fs->length()) fail("forward iteration visited " + std::to_string(got.size()) + " characters, length() is " + std::to_string(fs->length()));
}

template <size_t L, bool MODEL>
void Exec<L, MODEL>::iterRev(int v) {
  const FS &cf = *fs;
  std::string got;
  size_t guard = 0;
  const size_t limit = static_cast<size_t>(L) + 2;
  try {
    switch (v) {
      case 0: for (auto it = fs->rbegin(); it != fs->rend(); ++it) { got += *it; if (++guard > limit) break; } break;
      case 1: for (auto it = cf.rbegin(); it != cf.rend(); it++) { got += *it; if (++guard > limit) break; } break;
      default: for (auto it = cf.crbegin(); it != cf.crend(); ++it) { got += *it; if (++guard > limit) break; } break;
    }
  } catch (const std::exception &e) { fail(std::string("reverse iteration threw ") + e.what()); return; }
  if (guard > limit) { fail("reverse iteration does not terminate"); return; }
  if (MODEL) eq("reverse iteration", got, std::string(m.rbegin(), m.rend()));
  else if (got.size() != fs->length()) fail("reverse iteration visited " + std::to_string(got.size()) + " characters, length() is " + std::to_string(fs->length()));
}

// random access on valid positions: i = A, j = B (both <= length; length means end())
template <size_t L, bool MODEL>
void Exec<L, MODEL>::iterRandom() {
  const FS &cf = *fs;
  const size_t ln = fs->length();
  const size_t i = std::min<uint64_t>(A, ln), j = std::min<uint64_t>(B, ln);
  std::string ref = MODEL ? m : safeStr(cf);
  try {
    auto it = cf.cbegin(); if (i) it += i;
    auto jt = cf.cbegin(); if (j) jt += j;
    if ((it == cf.cend()) != (i == ln)) fail("begin()+=" + std::to_string(i) + " compared with end() wrongly");
    if ((it == jt) != (i == j) || (it != jt) != (i != j)) fail("iterator ==/!= wrong for positions " + std::to_string(i) + "," + std::to_string(j));
    if (i < ln) {
      if (*it != ref[i]) fail("*(begin()+=" + std::to_string(i) + ") delivers the wrong character");
      if (j < ln) {
        if ((it < jt) != (i < j) || (it <= jt) != (i <= j) || (it > jt) != (i > j) || (it >= jt) != (i >= j)) fail("iterator relational operators wrong for positions " + std::to_string(i) + "," + std::to_string(j));
        if (i + j < ln && it[j] != ref[i + j]) fail("iterator operator[] delivers the wrong character");
      }
      if (j <= i) { auto kt = it; kt -= j; if (*kt != ref[i - j]) fail("iterator -= delivers the wrong character"); }
      { auto kt = it; ++kt; if (i + 1 < ln ? *kt != ref[i + 1] : kt != cf.cend()) fail("iterator ++ wrong"); }
      { auto kt = it; auto old = kt++; if (*old != ref[i]) fail("iterator post-increment returned the wrong position"); }
      if (i > 0) { auto kt = it; --kt; if (*kt != ref[i - 1]) fail("iterator -- wrong"); auto k2 = it; auto old = k2--; if (*old != ref[i] || *k2 != ref[i - 1]) fail("iterator post-decrement wrong"); }
    }
    if (j >= i) { size_t d = jt - it; if (d != j - i) fail("iterator difference is " + numStr(d) + " for positions " + std::to_string(j) + " and " + std::to_string(i)); }
    // non-const iterator on the same positions
    { auto nt = fs->begin(); if (i) nt += i; if (i < ln && *nt != ref[i]) fail("non-const iterator delivers the wrong character"); if ((nt == fs->end()) != (i == ln)) fail("non-const iterator end test wrong"); }
    // reverse iterators: k-th from the back
    if (ln > 0) {
      const size_t k = i < ln ? i : ln - 1;
      auto rt = cf.crbegin(); if (k) rt += k;
      if (*rt != ref[ln - 1 - k]) fail("reverse iterator += delivers the wrong character");
      const size_t q = j < ln ? j : ln - 1;
      auto qt = cf.rbegin(); if (q) qt += q;
      if ((rt == qt) != (k == q) || (rt != qt) != (k != q)) fail("reverse iterator ==/!= wrong");
      if ((rt < qt) != (k < q) || (rt <= qt) != (k <= q) || (rt > qt) != (k > q) || (rt >= qt) != (k >= q)) fail("reverse iterator relational operators wrong");
      if (q >= k) { size_t d = qt - rt; if (d != q - k) fail("reverse iterator difference is " + numStr(d) + ", expected " + std::to_string(q - k)); }
      { size_t d = cf.crend() - rt; if (d != ln - k) fail("rend() - reverse iterator is " + numStr(d) + ", expected " + std::to_string(ln - k)); }
      if (q <= k && rt[0] != ref[ln - 1 - k]) fail("reverse iterator operator[] wrong");
      { auto kt = rt; ++kt; if (k + 1 < ln ? *kt != ref[ln - 2 - k] : kt != cf.crend()) fail("reverse iterator ++ wrong"); }
      if (k > 0) { auto kt = rt; --kt; if (*kt != ref[ln - k]) fail("reverse iterator -- wrong"); auto k2 = rt; k2 -= k; if (*k2 != ref[ln - 1]) fail("reverse iterator -= wrong"); }
      { auto nr = fs->rbegin(); if (k) nr += k; if (*nr != ref[ln - 1 - k]) fail("non-const reverse iterator delivers the wrong character"); }
    }
  } catch (const std::exception &e) {
    fail(std::string("iterator operation on valid positions threw ") + e.what());
  }
}

// C10 only: arbitrary step values on all four iterator types, then a dereference. Documented throws
// (std::range_error at the end position) are fine; the character reference must lie inside the buffer.
template <size_t L, bool MODEL>
void Exec<L, MODEL>::iterWalk(int v) {
  const FS &cf = *fs;
  const char *lo = cf.c_str(), *hi = cf.c_str() + L;
  auto inside = [&](const char &r, const char *what) {
    if (&r < lo || &r > hi) fail(std::string(what) + ": dereference refers to memory outside the string buffer (offset " +
                                 std::to_string(static_cast<long long>(&r - lo)) + ")");
    // an iterator that can be dereferenced designates a character of the content; the end position throws. A reference to the
    // terminator (or behind it) would let the caller overwrite it
    else if (&r >= lo + cf.length()) fail(std::string(what) + ": dereference did not throw but refers to offset " +
                                          std::to_string(static_cast<long long>(&r - lo)) + ", which is not a character of the content (length " +
                                          std::to_string(cf.length()) + ")");
    else { volatile char sinkc = r; (void)sinkc; }
  };
  auto walk = [&](auto it, const char *what) {
    const uint64_t steps[3] = {B, C, D};
    for (int s = 0; s < 3; ++s) {
      int kind = (v >> (2 + 3 * s)) & 7;
      switch (kind) {
        case 0: ++it; break;
        case 1: --it; break;
        case 2: it += steps[s]; break;
        case 3: it -= steps[s]; break;
        case 4: it++; break;
        case 5: it--; break;
        default: break;
      }
    }
    try { inside(*it, what); } catch (const std::range_error &) {} catch (const std::invalid_argument &) {}
  };
  oodArgument = true;
  switch (v & 3) {
    case 0: { auto it = (A == NPOS) ? fs->end() : fs->begin(); if (A != NPOS && A) it += A; walk(it, "iterator"); break; }
    case 1: { auto it = (A == NPOS) ? cf.cend() : cf.cbegin(); if (A != NPOS && A) it += A; walk(it, "const_iterator"); break; }
    case 2: { auto it = (A == NPOS) ? fs->rend() : fs->rbegin(); if (A != NPOS && A) it += A; walk(it, "reverse_iterator"); break; }
    default: { auto it = (A == NPOS) ? cf.crend() : cf.crbegin(); if (A != NPOS && A) it += A; walk(it, "const_reverse_iterator"); break; }
  }
}

}  // namespace fsx
