// libFuzzer target for C10 (and, on the same decoded stream, C11): bytes -> FixedString operation
// sequence for L in {8, 255, 256}; the oracles are the ones of harness/fs_exec.hpp (well-formedness after
// every operation, canaries, const sources unchanged, ASan/UBSan; then the same case with every argument
// forced into its documented domain against the std::string model).
//
// build:  clang++ -std=gnu++17 -g -O1 -fsanitize=fuzzer,address,undefined -fno-sanitize=vptr
//           -fno-sanitize-recover=undefined -I$REPO/src -I/verif/harness /verif/fuzz/fuzz_fs.cpp -o fuzz_fs
// run:    ./fuzz_fs -seed=N -runs=N -max_len=512 [corpus dir]        (plain libFuzzer CLI)
//         FS_FUZZ_MODEL=0 switches the C11 part off; FS_FUZZ_CASE=<file> names the file that receives the
//         failing case in the harness' text format (default ./fuzz_fs.fail.case), replayable with
//         fs_safety/fs_model --mode ops --replay <file>.
//         ./fuzz_fs <artifact>   re-runs one saved input.
#include "fs_exec.hpp"

#include <fuzzer/FuzzedDataProvider.h>

#include <map>

namespace fsx {
// counters for the driver (file named by VERIF_FUZZ_STATS, written at exit): executions, non-trivial cases,
// cases per capacity, executed operations per kind
struct CountingSink : Sink {
  std::map<std::string, unsigned long> n;
  unsigned long execs = 0, nontriv = 0;
  void cls(const char *name) override { ++n[name]; }
  void cls(const std::string &name) override { ++n[name]; }
  void nontrivial() override { ++nontriv; }
  bool kf(const char *) override { return false; }
  void excl(const char *) override {}
  void dump() {
    const char *p = getenv("VERIF_FUZZ_STATS");
    if (!p) return;
    FILE *f = fopen(p, "w");
    if (!f) return;
    fprintf(f, "{\"execs\":%lu,\"with_words\":%lu", execs, nontriv);
    for (auto &e : n) {
      std::string k = e.first;
      for (char &ch : k) if (ch == '.') ch = '_';
      fprintf(f, ",\"%s\":%lu", k.c_str(), e.second);
    }
    fprintf(f, "}\n");
    fclose(f);
  }
};
CountingSink &countingSink() { static CountingSink *s = new CountingSink; return *s; }   // never destroyed: read by the atexit handler
Sink &sink() { return countingSink(); }
}  // namespace fsx

namespace {
using namespace fsx;

Num decodeNum(FuzzedDataProvider &fdp) {
  static const char bases[] = {'z', 'z', 'l', 'l', 'c', 'r', 's', 'n'};
  Num n;
  n.base = bases[fdp.ConsumeIntegralInRange<int>(0, 7)];
  int sel = fdp.ConsumeIntegral<uint8_t>();
  if (sel < 200) n.off = fdp.ConsumeIntegral<int8_t>();
  else if (sel < 240) n.off = fdp.ConsumeIntegral<int16_t>();
  else {
    static const int64_t special[] = {255, 256, 257, 65535, 65536, 1000000, INT64_MAX, INT64_MIN, -255, -256, -65536, 300, 301, 0, 1, -1};
    n.off = special[sel & 15];
  }
  if (n.base == 'z' && n.off < 0 && sel < 128) n.off = -n.off;   // plain small positions are the common case
  return n;
}
Num decodeTextLen(FuzzedDataProvider &fdp) {
  static const char bases[] = {'z', 'z', 'z', 'l', 'c', 'r'};
  Num n;
  n.base = bases[fdp.ConsumeIntegralInRange<int>(0, 5)];
  int sel = fdp.ConsumeIntegral<uint8_t>();
  if (sel < 220) n.off = n.base == 'z' ? fdp.ConsumeIntegralInRange<int>(0, 12) : fdp.ConsumeIntegralInRange<int>(-3, 3);
  else n.off = fdp.ConsumeIntegralInRange<int>(0, 600);
  return n;
}

Case decode(const uint8_t *data, size_t size) {
  FuzzedDataProvider fdp(data, size);
  Case c;
  static const uint64_t caps[] = {8, 255, 256};
  c.cap = caps[fdp.ConsumeIntegralInRange<int>(0, 2)];
  c.place = fdp.ConsumeBool() ? 1 : 0;
  c.init = fdp.ConsumeRandomLengthString(6);
  c.il = decodeTextLen(fdp);
  c.pinit = fdp.ConsumeRandomLengthString(4);
  c.pl = decodeTextLen(fdp);
  while (fdp.remaining_bytes() > 0 && c.ops.size() < 24) {
    Op o;
    o.kind = fdp.ConsumeIntegralInRange<int>(0, K_COUNT - 1);
    const OpInfo &info = opInfo(o.kind);
    for (int i = 0; i < 4; ++i) {
      Num n = info.r[i] == R_NONE ? Num() : decodeNum(fdp);
      (i == 0 ? o.a : i == 1 ? o.b : i == 2 ? o.c : o.d) = n;
    }
    if (info.strFlags & S_USED) { o.s = fdp.ConsumeRandomLengthString(5); o.sl = decodeTextLen(fdp); }
    if (info.usesCh) o.ch = fdp.ConsumeIntegral<uint8_t>();
    if (info.variants > 1) o.v = fdp.ConsumeIntegralInRange<int>(0, info.variants - 1);
    if (info.srcMask) { o.src = fdp.ConsumeIntegralInRange<int>(0, 5); if (o.src == SRC_FS70000) o.src = SRC_FS300; }
    c.ops.push_back(o);
  }
  return c;
}

template <bool MODEL>
std::string runOn(const Case &c) {
  switch (c.cap) {
    case 8: { Exec<8, MODEL> e(c); return e.run(); }
    case 255: { Exec<255, MODEL> e(c); return e.run(); }
    default: { Exec<256, MODEL> e(c); return e.run(); }
  }
}

void report(const Case &c, const char *which, const std::string &msg) {
  std::string text = showCase(c);
  const char *path = getenv("FS_FUZZ_CASE");
  std::string p = path ? path : "fuzz_fs.fail.case";
  { std::ofstream f(p, std::ios::binary); f << text; }
  fprintf(stderr, "FIXEDSTRING-%s-VIOLATION: %s\ncase written to %s:\n%s\n", which, msg.c_str(), p.c_str(), text.c_str());
  abort();
}
}  // namespace

extern "C" int LLVMFuzzerTestOneInput(const uint8_t *data, size_t size) {
  static const bool withModel = !(getenv("FS_FUZZ_MODEL") && getenv("FS_FUZZ_MODEL")[0] == '0');
  static const bool registered = (atexit([]() { countingSink().dump(); }), true);
  (void)registered;
  Case c = decode(data, size);
  ++countingSink().execs;
  countingSink().cls("cap_" + std::to_string(c.cap));
  if (getenv("FS_FUZZ_DUMP")) fprintf(stderr, "%s", showCase(c).c_str());
  std::string m = runOn<false>(c);
  if (!m.empty()) report(c, "C10", m);
  if (withModel) {
    m = runOn<true>(c);
    if (!m.empty()) report(c, "C11", m);
  }
  return 0;
}
