// C04 - libFuzzer target: argument evaluation is memory-safe for every argv and source.
// The input is decoded structurally (flags, argument-set menu, argv[0], words, file body, env body).
// Oracle inside the target: only std::exception may escape; ASan/UBSan watch everything; libFuzzer's -timeout
// watches termination. All state is rebuilt per iteration.
#include <fuzzer/FuzzedDataProvider.h>

#include "celma/prog_args.hpp"
#include "celma/prog_args/groups.hpp"
#include "celma/prog_args/level_counter.hpp"

#include <array>
#include <bitset>
#include <cstdio>
#include <cstdlib>
#include <fstream>
#include <map>
#include <optional>
#include <set>
#include <sstream>
#include <string>
#include <sys/stat.h>
#include <tuple>
#include <unistd.h>
#include <vector>

namespace cpa = celma::prog_args;
using cpa::Handler;

namespace {

struct Counters {
  unsigned long execs = 0, withWords = 0, returned = 0, threw = 0, fileSrc = 0, envSrc = 0, groups = 0, argFile = 0;
  unsigned long menu[8] = {0, 0, 0, 0, 0, 0, 0, 0};
} counters;

std::string scratch;

void dumpCounters() {
  const char *p = getenv("VERIF_FUZZ_STATS");
  if (!p) return;
  FILE *f = fopen(p, "w");
  if (!f) return;
  fprintf(f, "{\"execs\":%lu,\"with_words\":%lu,\"returned\":%lu,\"threw\":%lu,\"file_source\":%lu,\"env_source\":%lu,\"groups\":%lu,\"arg_file\":%lu,\"menu\":[%lu,%lu,%lu,%lu,%lu,%lu,%lu,%lu]}\n",
          counters.execs, counters.withWords, counters.returned, counters.threw, counters.fileSrc, counters.envSrc, counters.groups, counters.argFile,
          counters.menu[0], counters.menu[1], counters.menu[2], counters.menu[3], counters.menu[4], counters.menu[5], counters.menu[6], counters.menu[7]);
  fclose(f);
}

struct Init {
  Init() {
    const char *s = getenv("VERIF_SCRATCH");
    scratch = std::string(s ? s : "/dev/shm") + "/fuzz_argv-" + std::to_string(getpid());
    mkdir(scratch.c_str(), 0755);
    mkdir((scratch + "/.progargs").c_str(), 0755);
    setenv("HOME", scratch.c_str(), 1);
    atexit(dumpCounters);
  }
} init;

// destinations of one iteration
struct Dest {
  bool f1 = false, f2 = true, f3 = false;
  int i1 = 0, i2 = 7;
  long l1 = 0;
  unsigned u1 = 0;
  double d1 = 0;
  std::string s1, s2 = "init", cmd;
  std::optional<int> oi;
  std::optional<std::string> os;
  std::vector<int> vi = {1, 2};
  std::vector<std::string> vs;
  std::set<int> si;
  std::array<int, 3> arr = {{0, 0, 0}};
  std::tuple<int, std::string, int> tup{0, "", 0};
  std::bitset<10> bs;
  std::map<int, std::string> mis;
  cpa::LevelCounter level;
  std::string pairName;
  int pairType = 0;
  int valueDest = 0;
  int callCount = 0;
  std::string callValue;
  int bracketDepth = 0;
};

void defineSet(Handler &h, Handler *sub, Dest &d, int menu) {
  switch (menu) {
    case 0:   // scalars
      h.addArgument("f,flag", DEST_VAR(d.f1), "flag");
      h.addArgument("g", DEST_VAR(d.f2), "flag 2");
      h.addArgument("i,int", DEST_VAR(d.i1), "int")->addCheck(cpa::range(-100, 100));
      h.addArgument("l,long", DEST_VAR(d.l1), "long");
      h.addArgument("u", DEST_VAR(d.u1), "unsigned");
      h.addArgument("d,double", DEST_VAR(d.d1), "double");
      h.addArgument("s,string", DEST_VAR(d.s1), "string")->addFormat(cpa::uppercase());
      h.addArgument("o,opt-int", DEST_VAR(d.oi), "optional int");
      h.addArgument("opt-string", DEST_VAR(d.os), "optional string")->addCheck(cpa::minLength(2));
      break;
    case 1:   // containers
      h.addArgument("v,values", DEST_VAR(d.vi), "ints")->setTakesMultiValue()->setSortData()->setUniqueData();
      h.addArgument("n,names", DEST_VAR(d.vs), "strings")->setListSep(';')->setCardinality(cpa::cardinality_max(4));
      h.addArgument("t,set", DEST_VAR(d.si), "set")->setClearBeforeAssign();
      h.addArgument("a,array", DEST_VAR(d.arr), "array")->setUniqueData(true);
      h.addArgument("p,tuple", DEST_VAR(d.tup), "tuple");
      h.addArgument("b,bits", DEST_VAR(d.bs), "bitset")->setTakesMultiValue();
      h.addArgument("m,map", DEST_VAR(d.mis), "map")->setPairFormat("=");
      break;
    case 2:   // level counter, value destinations, pairs, callables
      h.addArgument("v,verbose", DEST_VAR(d.level), "level")->addCheck(cpa::upper(5));
      h.addArgument("left", DEST_VAR_VALUE(d.valueDest, -1), "left");
      h.addArgument("right", DEST_VAR_VALUE(d.valueDest, 1), "right");
      h.addArgument("q,queue", DEST_PAIR(d.pairName, d.pairType, 3), "pair");
      h.addArgument("c,call", cpa::destination(cpa::detail::ArgHandlerCallable([&d](bool) { ++d.callCount; }), "call"), "callable");
      h.addArgument("w,with-value", cpa::destination(cpa::detail::ArgHandlerCallableValue([&d](const std::string &v, bool) { d.callValue = v; }), "callv", true), "callable value");
      break;
    case 3:   // constraints + mandatory + command value mode
      h.addArgument("i,input", DEST_VAR(d.s1), "input")->setIsMandatory()->addConstraint(cpa::requiresArg("o,output"));
      h.addArgument("o,output", DEST_VAR(d.s2), "output")->addConstraint(cpa::excludes("q,quiet"));
      h.addArgument("q,quiet", DEST_VAR(d.f1), "quiet");
      h.addArgument("x", DEST_VAR(d.i1), "x");
      h.addArgument("y", DEST_VAR(d.i2), "y");
      h.addConstraint(cpa::differ("x;y"));
      h.addConstraint(cpa::any_of("q;x"));
      h.addArgument("r,run", DEST_VAR(d.cmd), "command")->setValueMode(Handler::ValueMode::command);
      break;
    case 4:   // positional + brackets + sub-group
      h.addArgument("-", DEST_VAR(d.vs), "positional")->setTakesMultiValue();
      h.addArgument("f", DEST_VAR(d.f1), "flag");
      h.addBracketHandler([&d]() { ++d.bracketDepth; }, [&d]() { --d.bracketDepth; });
      if (sub) {
        sub->addArgument("c,cache", DEST_PAIR(d.pairName, d.pairType, 1), "cache");
        sub->addArgument("k", DEST_VAR(d.i2), "k");
        h.addArgument("s,sub", *sub, "sub group");
      }
      break;
    case 6:   // second member of a group: keys that no other set uses
      h.addArgument("Z,zeta", DEST_VAR(d.i1), "zeta");
      h.addArgument("Y", DEST_VAR(d.f1), "flag Y");
      h.addArgument("W,words", DEST_VAR(d.vs), "words")->setTakesMultiValue();
      break;
    default:   // hidden/deprecated/long keys with common prefixes
      h.addArgument("input", DEST_VAR(d.s1), "input");
      h.addArgument("input-file", DEST_VAR(d.s2), "input file")->setIsHidden();
      h.addArgument("input-format", DEST_VAR(d.i1), "input format")->setReplacedBy("--format");
      h.addArgument("in", DEST_VAR(d.f1), "in");
      h.addArgument("inverted", DEST_VAR(d.f2), "inv");
      h.addArgument("old", DEST_VAR(d.i2), "old")->setIsDeprecated();
      break;
  }
}

}  // namespace

extern "C" int LLVMFuzzerTestOneInput(const uint8_t *data, size_t size) {
  FuzzedDataProvider fdp(data, size);
  ++counters.execs;
  // ---- reset global state
  cpa::Groups::reset();
  const std::string paFile = scratch + "/.progargs/prog.pa", argFile = scratch + "/args.txt";
  unlink(paFile.c_str());
  unlink(argFile.c_str());
  unsetenv("PROG");
  unsetenv("FUZZ_ARGS");

  // ---- decode
  const uint32_t fb = fdp.ConsumeIntegral<uint32_t>();
  const int menu = fdp.ConsumeIntegralInRange<int>(0, 5);
  const int mode = fdp.ConsumeIntegralInRange<int>(0, 9);   // 0-6 plain handler, 7-9 groups
  int flags = Handler::hfUsageCont;
  if (fb & 1) flags |= Handler::hfHelpShort;
  if (fb & 2) flags |= Handler::hfHelpLong;
  if (fb & 4) flags |= Handler::hfHelpArg;
  if (fb & 8) flags |= Handler::hfHelpArgFull;
  if (fb & 16) flags |= Handler::hfVerboseArgs;
  if (fb & 32) flags |= Handler::hfNoAbbr;
  if (fb & 64) flags |= Handler::hfUsageHidden;
  if (fb & 128) flags |= Handler::hfArgHidden;
  if (fb & 256) flags |= Handler::hfUsageDeprecated;
  if (fb & 512) flags |= Handler::hfArgDeprecated;
  if (fb & 1024) flags |= Handler::hfUsageShort;
  if (fb & 2048) flags |= Handler::hfUsageLong;
  if (fb & 4096) flags |= Handler::hfListArgVar;
  if (fb & 8192) flags |= Handler::hfEndValues;
  const bool useGroups = mode >= 7;
  const bool progArgFile = !useGroups && (fb & 16384);
  const bool envDefault = !useGroups && (fb & 32768);
  const bool envNamed = !useGroups && !envDefault && (fb & 65536);
  const bool argFileArg = !useGroups && (fb & 131072);
  std::string arg0;
  switch (fdp.ConsumeIntegralInRange<int>(0, 5)) {
    case 0: arg0 = "prog"; break;
    case 1: arg0 = "/usr/bin/prog"; break;
    case 2: arg0 = ""; break;
    case 3: arg0 = std::string(fdp.ConsumeIntegralInRange<size_t>(0, 600), 'p'); break;
    default: arg0 = fdp.ConsumeRandomLengthString(24); for (auto &c : arg0) if (c == 0) c = 'x'; break;
  }
  std::string fileBody, envBody;
  if (progArgFile || argFileArg) { fileBody = fdp.ConsumeRandomLengthString(120); for (auto &c : fileBody) if (c == 0) c = '\n'; }
  if (envDefault || envNamed) { envBody = fdp.ConsumeRandomLengthString(80); for (auto &c : envBody) if (c == 0) c = ' '; }
  std::vector<std::string> words;
  while (fdp.remaining_bytes() > 0 && words.size() < 24) {
    std::string w = fdp.ConsumeRandomLengthString(40);
    for (auto &c : w) if (c == 0) c = '-';
    words.push_back(w);
  }
  if (argFileArg) { words.insert(words.begin(), argFile); words.insert(words.begin(), "--arg-file"); }
  if (progArgFile) { std::ofstream f(paFile, std::ios::binary); f << fileBody; }
  if (argFileArg) { std::ofstream f(argFile, std::ios::binary); f << fileBody; }
  if (envDefault) setenv("PROG", envBody.c_str(), 1);
  if (envNamed) setenv("FUZZ_ARGS", envBody.c_str(), 1);
  if (progArgFile) flags |= Handler::hfReadProgArg;
  if (envDefault) flags |= Handler::hfEnvVarArgs;
  // the program-argument file and the default environment variable are found through basename(argv[0])
  if ((progArgFile || envDefault) && arg0 != "/usr/bin/prog") arg0 = "prog";

  std::vector<char *> argv;
  argv.push_back(const_cast<char *>(arg0.c_str()));
  for (auto &w : words) argv.push_back(const_cast<char *>(w.c_str()));
  argv.push_back(nullptr);
  const int argc = static_cast<int>(argv.size()) - 1;
  if (!words.empty()) ++counters.withWords;
  ++counters.menu[menu];
  if (progArgFile) ++counters.fileSrc;
  if (argFileArg) ++counters.argFile;
  if (envDefault || envNamed) ++counters.envSrc;
  if (useGroups) ++counters.groups;

  // ---- evaluate
  std::ostringstream out, err;
  Dest d, d2;
  try {
    if (!useGroups) {
      Handler h(out, err, flags);
      Handler sub(h, Handler::hfHelpShort);
      if (envNamed) h.checkEnvVarArgs("FUZZ_ARGS");
      if (argFileArg) h.addArgumentFile("arg-file");
      defineSet(h, &sub, d, menu);
      h.evalArguments(argc, argv.data());
    } else {
      auto &g = cpa::Groups::instance(out, err, Handler::hfUsageCont | (flags & Handler::hfVerboseArgs));
      const int perHandler = flags & (Handler::hfNoAbbr | Handler::hfHelpShort | Handler::hfHelpLong);
      auto h1 = g.getArgHandler("first", perHandler);
      auto h2 = g.getArgHandler("second", flags & Handler::hfNoAbbr);
      defineSet(*h1, nullptr, d, menu);
      defineSet(*h2, nullptr, d2, 6);
      g.evalArguments(argc, argv.data());
    }
    ++counters.returned;
  } catch (const std::exception &) {
    ++counters.threw;
  } catch (...) {
    fprintf(stderr, "VERIF: an exception that is not derived from std::exception escaped from evalArguments\n");
    dumpCounters();
    __builtin_trap();
  }
  cpa::Groups::reset();
  return 0;
}
